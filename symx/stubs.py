"""Environment stubs (DESIGN.md 3.4).  Installed on module attributes by the harness, never by editing /repo.
install() / uninstall() are exact inverses so that concrete cross-validation can run un-stubbed in-process."""
import builtins
import sys
import logging
import math
from fractions import Fraction

import numpy as _np
import z3

from . import core
from .core import SymBool, SymReal, RV

HIT = set()  # names of stubs actually exercised (reported in evidence)


def _hit(n):
    HIT.add(n)


class NPProxy:
    """Forwards to numpy except for the few float-only functions pgmpy calls on value arrays."""

    def __getattr__(self, k):
        return getattr(_np, k)

    @staticmethod
    def _isobj(*arrs):
        for a in arrs:
            if isinstance(a, SymReal):
                return True
            if isinstance(a, _np.ndarray) and a.dtype == object:
                return True
            if isinstance(a, (list, tuple)) and any(isinstance(x, SymReal) for x in _np.asarray(a, dtype=object).ravel()):
                return True
        return False

    def isnan(self, a, *args, **kw):
        if not self._isobj(a):
            return _np.isnan(a, *args, **kw)
        _hit("np.isnan")
        a = _np.asarray(a, dtype=object)
        out = _np.zeros(a.shape, dtype=bool)
        for idx, v in _np.ndenumerate(a):
            out[idx] = isinstance(v, float) and math.isnan(v)
        return out

    @staticmethod
    def _close_expr(x, y, rtol, atol):
        """z3 Bool for |x-y| <= atol + rtol*|y| (numpy's formula), or a Python bool."""
        if isinstance(x, float) and (math.isnan(x) or math.isinf(x)) or isinstance(y, float) and (math.isnan(y) or math.isinf(y)):
            return (not isinstance(x, SymReal)) and (not isinstance(y, SymReal)) and x == y
        x = core.lift(x)
        y = core.lift(y)
        if x.q == y.q:
            return True
        if x.is_const() and y.is_const():
            return abs(x.const() - y.const()) <= Fraction(atol) + Fraction(rtol) * abs(y.const())
        d = x - y
        de = z3.If(d.e >= 0, d.e, -d.e)
        ye = y.e if y.pos else z3.If(y.e >= 0, y.e, -y.e)
        return de <= RV(Fraction(atol)) + RV(Fraction(rtol)) * ye

    def allclose(self, a, b, rtol=1e-05, atol=1e-08, equal_nan=False):
        if not self._isobj(a, b):
            return _np.allclose(a, b, rtol=rtol, atol=atol, equal_nan=equal_nan)
        _hit("np.allclose")
        a = _np.asarray(a, dtype=object)
        b = _np.asarray(b, dtype=object)
        a, b = _np.broadcast_arrays(a, b)
        conj = []
        for x, y in zip(a.ravel(), b.ravel()):
            c = self._close_expr(x, y, rtol, atol)
            if c is True:
                continue
            if c is False:
                return False
            conj.append(c)
        if not conj:
            return True
        r = bool(SymBool(z3.And(*conj)))
        if r and core.ENG is not None:
            # within tolerance: is it exactly equal, or merely close?  (lets harnesses treat "close but not equal"
            # paths - e.g. early termination of calibration - with banded instead of exact obligations)
            exact = []
            for x, y in zip(a.ravel(), b.ravel()):
                if isinstance(x, float) or isinstance(y, float):
                    continue
                x2, y2 = core.lift(x), core.lift(y)
                if x2.q != y2.q:
                    c = core.cmp_zero(x2.q - y2.q, "eq")
                    exact.append(c if not isinstance(c, bool) else z3.BoolVal(c))
            if exact and not bool(SymBool(z3.And(*exact))):
                core.ENG.tolerance_hits += 1
        return r

    def isclose(self, a, b, rtol=1e-05, atol=1e-08, equal_nan=False):
        if not self._isobj(a, b):
            return _np.isclose(a, b, rtol=rtol, atol=atol, equal_nan=equal_nan)
        _hit("np.isclose")
        scalar = not isinstance(a, (_np.ndarray, list, tuple)) and not isinstance(b, (_np.ndarray, list, tuple))
        a = _np.asarray(a, dtype=object)
        b = _np.asarray(b, dtype=object)
        a, b = _np.broadcast_arrays(a, b)
        out = _np.zeros(a.shape, dtype=bool)
        for idx in _np.ndindex(a.shape):
            c = self._close_expr(a[idx], b[idx], rtol, atol)
            out[idx] = c if isinstance(c, bool) else bool(SymBool(c))
        return bool(out[()]) if scalar and out.ndim == 0 else out

    def zeros(self, shape, dtype=None, **kw):
        if dtype in (float, _np.float64) and core.CTX is not None and OBJECT_ZEROS[0]:
            _hit("np.zeros(object)")
            a = _np.empty(shape, dtype=object)
            a.fill(core.lift(0))
            return a
        return _np.zeros(shape, dtype=dtype, **kw) if dtype is not None else _np.zeros(shape, **kw)

    def ones(self, shape, dtype=None, **kw):
        return _np.ones(shape, dtype=dtype, **kw) if dtype is not None else _np.ones(shape, **kw)


OBJECT_ZEROS = [False]
NP = NPProxy()

# ---------------------------------------------------------------- hash model for DiscreteFactor.__hash__
_HASH_REG = []


def reset_hash_model():
    _HASH_REG.clear()


def _tobytes_model(orig):
    def tobytes(arr):
        if isinstance(arr, _np.ndarray) and arr.dtype == object:
            _hit("compat_fns.tobytes(hash model)")
            flat = [core.lift(x) if not core._isspecial(x) else x for x in arr.ravel()]
            # DiscreteFactor.__hash__ also mixes in the variable hashes, so arrays of factors with different
            # scopes never need to be compared: only fork on value equality inside one scope class.
            scope = None
            try:
                slf = sys._getframe(1).f_locals.get("self")
                if slf is not None and hasattr(slf, "variables"):
                    scope = frozenset(slf.variables)
            except Exception:  # noqa
                scope = None
            shape_key = (arr.shape, scope)
            for k, (shape, rep) in enumerate(_HASH_REG):
                if shape != shape_key:
                    continue
                conj = []
                same = True
                for a, b in zip(flat, rep):
                    if isinstance(a, float) or isinstance(b, float):
                        if not (isinstance(a, float) and isinstance(b, float) and (a == b)):
                            same = False
                            break
                        continue
                    if a.q == b.q:
                        continue
                    if a.is_const() and b.is_const():
                        same = False
                        break
                    conj.append(a.e == b.e)
                if not same:
                    continue
                if not conj or bool(SymBool(z3.And(*conj))):
                    return b"eqclass%d" % k
            _HASH_REG.append((shape_key, flat))
            return b"eqclass%d" % (len(_HASH_REG) - 1)
        return orig(arr)

    return tobytes


def _isinstance_model(obj, cls):
    if builtins.isinstance(obj, SymReal):
        if cls is float or (builtins.isinstance(cls, tuple) and float in cls):
            _hit("isinstance(SymReal, float)")
            return True
    return builtins.isinstance(obj, cls)


_SAVED = {}
_INSTALLED = [False]


def _patch(mod, name, val):
    key = (mod, name)
    if key not in _SAVED:
        _SAVED[key] = (name in mod.__dict__, mod.__dict__.get(name))
    setattr(mod, name, val)


def install(object_zeros=False):
    """Switch pgmpy to the object-dtype numpy backend and install the stubs."""
    from pgmpy import config
    import pgmpy.utils.compat_fns as cf
    import pgmpy.factors.discrete  # noqa
    DF = sys.modules["pgmpy.factors.discrete.DiscreteFactor"]
    CPDm = sys.modules["pgmpy.factors.discrete.CPD"]

    logging.getLogger("pgmpy").setLevel(logging.ERROR)
    config.set_backend("numpy", dtype=object)
    config.set_show_progress(False)
    OBJECT_ZEROS[0] = object_zeros
    if _INSTALLED[0]:
        return
    _INSTALLED[0] = True
    _SAVED[("config", "get_compute_backend")] = config.__dict__.get("get_compute_backend")
    config.get_compute_backend = lambda: NP
    _patch(cf, "tobytes", _tobytes_model(cf.tobytes))
    _patch(cf, "isinstance", _isinstance_model)
    _patch(DF, "isinstance", _isinstance_model)
    _patch(CPDm, "isinstance", _isinstance_model)


def patch_module_np(modname):
    import importlib
    m = importlib.import_module(modname)
    _patch(m, "np", NP)
    return m


def patch_attr(modname, attr, val):
    import importlib
    m = importlib.import_module(modname)
    _patch(m, attr, val)
    return m


def uninstall():
    from pgmpy import config
    for (mod, name), hv in list(_SAVED.items()):
        if mod == "config":
            continue
        had, val = hv
        if had:
            setattr(mod, name, val)
        else:
            try:
                delattr(mod, name)
            except AttributeError:
                pass
    if ("config", "get_compute_backend") in _SAVED:
        v = _SAVED[("config", "get_compute_backend")]
        if v is None:
            try:
                del config.__dict__["get_compute_backend"]
            except KeyError:
                pass
        else:
            config.get_compute_backend = v
    _SAVED.clear()
    _INSTALLED[0] = False
    config.set_backend("numpy", dtype="float64")
    config.set_show_progress(False)

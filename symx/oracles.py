"""Declarative SMT oracles over edge Booleans (DESIGN.md 3.6).  They never call pgmpy.

A DAG on nodes 0..n-1 is given by E[(u,v)] (z3 Bool or Python bool) for u<v in a fixed topological order:
every edge points from the lower to the higher index, so acyclicity holds by construction and every DAG is
represented up to a relabelling (the harnesses permute the public labels)."""
import itertools

import z3


def _or(xs):
    xs = list(xs)
    if not xs:
        return z3.BoolVal(False)
    return z3.Or(*xs) if len(xs) > 1 else xs[0]


def _and(xs):
    xs = list(xs)
    if not xs:
        return z3.BoolVal(True)
    return z3.And(*xs) if len(xs) > 1 else xs[0]


def _b(x):
    return z3.BoolVal(x) if isinstance(x, bool) else x


def edge(E, a, b):
    """directed edge a->b present"""
    return _b(E[(a, b)]) if a < b else z3.BoolVal(False)


def adj(E, a, b):
    return _b(E[(min(a, b), max(a, b))])


def descendants_or_self(E, n):
    """D[a][b]: b is a descendant of a or b == a (formula)"""
    D = [[z3.BoolVal(a == b) for b in range(n)] for a in range(n)]
    for a in range(n - 1, -1, -1):
        for b in range(a + 1, n):
            D[a][b] = _or([z3.And(edge(E, a, c), D[c][b]) for c in range(a + 1, b + 1)])
    return D


def dconnected_def(E, n, x, y, Z):
    """Definition in the property statement: exists a simple trail x..y such that every non-collider on it is
    unobserved and every collider has an observed descendant-or-self.  Z: set of observed node indices."""
    if x == y:
        return z3.BoolVal(True)
    if x in Z or y in Z:
        return z3.BoolVal(False)
    D = descendants_or_self(E, n)
    others = [v for v in range(n) if v not in (x, y)]
    alts = []
    for r in range(len(others) + 1):
        for mid in itertools.permutations(others, r):
            path = (x,) + mid + (y,)
            conds = [adj(E, path[i], path[i + 1]) for i in range(len(path) - 1)]
            ok = True
            for i in range(1, len(path) - 1):
                a, m, b = path[i - 1], path[i], path[i + 1]
                collider = a < m and b < m  # both edges point into m (edges go low -> high)
                if collider:
                    conds.append(_or([D[m][z] for z in Z]))
                else:
                    if m in Z:
                        ok = False
                        break
            if ok:
                alts.append(_and(conds))
    return _or(alts)


def dconnected_bayesball(E, n, x, Z):
    """Bayes-ball reachability over (node, direction) states, unrolled 2n rounds (Koller & Friedman Alg. 3.1 as a
    fixpoint).  Returns list conn[y] (formula): y reachable (active, unobserved) from x."""
    D = descendants_or_self(E, n)
    anc = [_or([D[v][z] for z in Z]) for v in range(n)]  # v is an ancestor-or-self of some observed node
    obs = [v in Z for v in range(n)]
    up = [z3.BoolVal(v == x) for v in range(n)]  # reached travelling "up" (from a child)
    dn = [z3.BoolVal(False) for _ in range(n)]  # reached travelling "down" (from a parent)
    for _ in range(2 * n):
        nup, ndn = list(up), list(dn)
        for v in range(n):
            # v reached 'up' and unobserved: parents get 'up', children get 'down'
            # v reached 'down': if unobserved children get 'down'; if ancestor of observed, parents get 'up'
            for p in range(v):
                src = []
                if not obs[v]:
                    src.append(up[v])
                src.append(z3.And(dn[v], anc[v]))
                nup[p] = z3.Or(nup[p], z3.And(edge(E, p, v), _or(src)))
            for c in range(v + 1, n):
                if not obs[v]:
                    ndn[c] = z3.Or(ndn[c], z3.And(edge(E, v, c), z3.Or(up[v], dn[v])))
        up, dn = nup, ndn
    return [z3.BoolVal(False) if obs[v] else z3.Or(up[v], dn[v]) for v in range(n)]


def dconnected_moral(E, n, x, y, Z):
    """Lauritzen's criterion: x,y connected in the moralised ancestral graph of {x,y}+Z after deleting Z."""
    if x == y:
        return z3.BoolVal(True)
    if x in Z or y in Z:
        return z3.BoolVal(False)
    D = descendants_or_self(E, n)
    S = [x, y] + list(Z)
    inA = [_or([D[v][s] for s in S]) for v in range(n)]

    def medge(a, b):
        direct = adj(E, a, b)
        married = _or([z3.And(edge(E, a, c), edge(E, b, c), inA[c]) for c in range(max(a, b) + 1, n)])
        return z3.And(inA[a], inA[b], z3.Or(direct, married))
    reach = [z3.BoolVal(v == x) for v in range(n)]
    for _ in range(n):
        nr = list(reach)
        for v in range(n):
            if v in Z:
                continue
            nr[v] = z3.Or(nr[v], _or([z3.And(reach[u], medge(u, v)) for u in range(n) if u != v and u not in Z]))
        reach = nr
    return reach[y]


def eval_bool(f):
    f = z3.simplify(_b(f))
    if z3.is_true(f):
        return True
    if z3.is_false(f):
        return False
    raise ValueError("formula is not closed")


def sym_edges(n, prefix="e"):
    return {(u, v): z3.Bool(f"{prefix}_{u}_{v}") for u in range(n) for v in range(u + 1, n)}


# ------------------------------------------------------------------------------------------ Markov equivalence


def same_skeleton(E1, E2, n):
    return _and([_b(E1[k]) == _b(E2[k]) for k in E1])


def vstructs(E, n, order=None):
    """dict (a,c,b) with a<b -> formula: a->c<-b with a,b non-adjacent (edges go low->high in E's own order)"""
    out = {}
    for c in range(n):
        for a in range(c):
            for b in range(a + 1, c):
                out[(a, c, b)] = z3.And(_b(E[(a, c)]), _b(E[(b, c)]), z3.Not(_b(E[(a, b)])))
    return out

"""Scenario runner: distributes scenarios over worker processes (one group per PYTHONHASHSEED), explores every
scenario symbolically, replays solver counterexamples on the real float64 code, cross-validates witnesses
concretely, matches known findings, writes evidence, prints VIOLATION / KNOWN-FINDING lines."""
import fnmatch
import hashlib
import importlib
import json
import multiprocessing as mp
import os
import queue
import sys
import time
import traceback
from fractions import Fraction

VERIF = os.path.dirname(os.path.dirname(os.path.abspath(__file__)))
REPO = os.environ.get("VERIF_REPO", "/repo")


def load_harness(pid):
    return importlib.import_module(f"harness.{pid.lower()}")


# ------------------------------------------------------------------------------------------ worker side


def _beautify(core, pcs, values, den=64):
    """Try to move a counterexample to small dyadic rationals while it still satisfies base+pc+negated claim
    (checked by exact evaluation).  pcs: list of z3 Bool that must stay true."""
    import z3
    for d in (den, 1024, 2 ** 20):
        cand = {k: Fraction(round(v * d), d) for k, v in values.items()}
        ok = True
        for c in pcs:
            if core.eval_under(c, cand) is not True:
                ok = False
                break
        if ok:
            return cand
    return values


def run_concrete(h, desc, values):
    """Run the harness on the default float64 backend without stubs.  Returns (mode, error)."""
    from symx import stubs, mode, core
    stubs.uninstall()
    M = mode.ConcreteMode(values)
    M.key_prefix = desc.get("family", "") + ":"
    err = None
    try:
        h.run(desc, M)
    except mode.PreconditionFailed as e:
        err = ("precondition", str(e))
    except Exception as e:  # noqa
        err = ("exception", f"{type(e).__name__}: {e}", traceback.format_exc(limit=6))
    return M, err


def explore_scenario(h, desc, tier, profile=False):
    from symx import core, stubs, mode
    t0 = time.time()
    budget = desc.get("budget_s", 60 if tier == "quick" else 300)
    deadline = t0 + budget
    res = dict(desc=desc, paths=0, decisions=0, obligations=0, identity=0, solver=0, structural=0, failures=[],
               inconclusive=[], unknown_branches=0, truncated=False, solver_time=0.0, validated=0,
               errors=[], functions=[], stubs=[], cut_paths=0)
    if desc.get("concrete_only"):
        # scenarios without symbolic inputs (purity / structural checks on concrete data): run once on the real float64 code
        Mc, err = run_concrete(h, desc, {})
        stubs.install()
        res.update(paths=1, obligations=Mc.n_obl, structural=Mc.n_obl, validated=1 if not (err or Mc.failures) else 0)
        hits = list(Mc.failures)
        if err and err[0] == "exception":
            hits.append(mode.Failure("exception", (desc.get("family", "") + ":exception:" + err[1].split(":")[0]).replace(" ", "_"), err[1] + "\n" + (err[2] if len(err) > 2 else ""), {}, kind="exception"))
        for g in hits:
            rec = g.to_json()
            rec["replay"] = "reproduced"
            rec["reproduced"] = dict(values={}, label=g.label, key=g.key, detail=str(g.detail)[:1500])
            res["failures"].append(rec)
        res["wall"] = time.time() - t0
        return res
    M = mode.SymMode(obligation_timeout_ms=10000 if tier == "quick" else 60000)
    M.key_prefix = desc.get("family", "") + ":"
    stubs.install()
    path_pcs = []
    core.XCHECK.update(budget=int(os.environ.get("VERIF_XCHECK", "2" if tier == "quick" else "6")), seen=0, dumps=[])

    def fn():
        stubs.reset_hash_model()
        if getattr(h, "install_stubs", None):
            h.install_stubs(desc)
        nf = len(M.failures)
        try:
            h.run(desc, M)
            M.end_of_path()
        except mode.PreconditionFailed as e:
            return ("precondition", str(e))
        except core.HarnessError:
            raise
        except core.Concretized as e:
            return ("engine-limit", str(e))
        except Exception as e:  # noqa: pgmpy raised on this path
            tb = traceback.format_exc(limit=8)
            vals = M._current_values()
            M.failures.append(mode.Failure("exception", (M.key_prefix + "exception:" + type(e).__name__).replace(" ", "_"),
                                           f"{type(e).__name__}: {e}\n{tb}", vals, kind="exception"))
        # remember the path condition for failures of this path (for beautification)
        for f in M.failures[nf:]:
            f.pc = list(core.ENG.pc) + list(core.CTX.base)
        return None

    funcs = set()
    if profile:
        def prof(frame, event, arg):
            if event == "call":
                co = frame.f_code
                fn_ = co.co_filename
                if "/pgmpy/" in fn_ and "/tests/" not in fn_:
                    funcs.add(fn_.split("/pgmpy/", 1)[1][:-3].replace("/", ".") + ":" + co.co_qualname)
        sys.setprofile(prof)
    import signal

    def _alarm(signum, frame):
        raise core.PathLimit("scenario time budget exhausted inside a path")
    old_handler = None
    try:
        old_handler = signal.signal(signal.SIGALRM, _alarm)
        signal.setitimer(signal.ITIMER_REAL, budget + 20, 15)
    except (ValueError, AttributeError):
        old_handler = None
    try:
        results, tot, unknowns, truncated = core.explore(fn, max_paths=desc.get("max_paths", 3000),
                                                         branch_timeout_ms=5000 if tier == "quick" else 30000,
                                                         deadline=deadline)
    except core.HarnessError as e:
        sys.setprofile(None)
        res["errors"].append(f"HarnessError: {e}")
        # the symbolic run hit an engine / stub limitation: the scenario is inconclusive for the solver, but the concrete twin can still run the
        # real code at a generic point of the input space (a discrepancy there is a replayed violation like any other)
        try:
            signal.setitimer(signal.ITIMER_REAL, 0)
        except (ValueError, AttributeError):
            pass
        try:
            if core.CTX is not None and desc.get("validate", True):
                names = list(core.CTX.names) + list(core.CTX.pool)
                for scale in (Fraction(1, 4), Fraction(1, 8), Fraction(1, 2), Fraction(1)):
                    vals = {n_: scale * Fraction(17 + (7 * i) % 23, 32) for i, n_ in enumerate(names)}
                    Mc, err = run_concrete(h, desc, vals)
                    stubs.install()
                    if err and err[0] == "precondition":
                        continue
                    hits = list(Mc.failures)
                    if err and err[0] == "exception":
                        hits.append(mode.Failure("exception", (desc.get("family", "") + ":exception:" + err[1].split(":")[0]).replace(" ", "_"), err[1], vals, kind="exception"))
                    for g in hits[:3]:
                        rec = g.to_json()
                        rec["kind"] = "crossval"
                        rec["replay"] = "reproduced"
                        rec["values"] = {k: str(v) for k, v in vals.items()}
                        rec["reproduced"] = dict(values={k: str(v) for k, v in vals.items()}, label=g.label, key=g.key, detail=str(g.detail)[:1500])
                        res["failures"].append(rec)
                    if not hits:
                        res["validated"] = 1
                    break
        except Exception as e2:  # noqa
            res["errors"].append(f"concrete fallback failed: {type(e2).__name__}: {e2}")
        finally:
            stubs.install()
        res["wall"] = time.time() - t0
        return res
    finally:
        sys.setprofile(None)
        try:
            signal.setitimer(signal.ITIMER_REAL, 0)
            if old_handler is not None:
                signal.signal(signal.SIGALRM, old_handler)
        except (ValueError, AttributeError):
            pass
    # optional cross-path obligations (e.g. the exact law of a sampler aggregated over all explored paths)
    n_before_final = len(M.failures)
    if hasattr(h, "finalize") and not truncated:
        try:
            h.finalize(desc, M)
        except core.HarnessError as e:
            res["errors"].append(f"finalize: {e}")
    final_failures = M.failures[n_before_final:]
    if final_failures:
        # aggregated obligations have no single model: confirm them through the concrete twin of the scenario
        Mc, err = run_concrete(h, desc, {})
        stubs.install()
        hits = list(Mc.failures)
        for f in final_failures:
            f.values = {}
            f.kind = "aggregate"
            f._confirmed = hits[0] if hits else None
    res["functions"] = sorted(funcs)
    res["paths"] = len(results)
    res["decisions"] = tot.get("decides", 0)
    res["solver_time"] = tot.get("solver_time", 0.0)
    res["unknown_branches"] = len(unknowns)
    res["truncated"] = truncated
    res["obligations"] = M.n_obl
    res["identity"] = M.n_identity
    res["solver"] = M.n_solver
    res["structural"] = M.n_structural
    res["inconclusive"] = [list(x) for x in M.inconclusive[:20]]
    res["n_inconclusive"] = len(M.inconclusive)
    res["samples"] = M.samples[:2]
    for r in results:
        if r.error:
            res["cut_paths"] += 1
        if r.out is not None:
            res["errors"].append(list(r.out))
    res["stubs"] = sorted(stubs.HIT)
    res["assumptions"] = list(dict.fromkeys(core.CTX.assumptions)) if core.CTX else []
    res["canary"] = dict(M.canary)
    if core.XCHECK["dumps"]:
        from symx import xcheck
        dumps, core.XCHECK["dumps"], core.XCHECK["budget"] = core.XCHECK["dumps"], [], 0
        res["xcheck"], res["xcheck_disagree"] = xcheck.recheck(dumps, 10 if tier == "quick" else 30)
        res["xcheck_n"] = len(dumps)

    # ---- counterexamples: beautify, replay on real float code
    seen_keys = set()
    for f in M.failures:
        if f.key in seen_keys and len(res["failures"]) >= 3:
            continue
        seen_keys.add(f.key)
        rec = f.to_json()
        vals = f.values
        if getattr(f, "kind", "") == "aggregate":
            g = getattr(f, "_confirmed", None)
            if g is not None:
                rec["replay"] = "reproduced"
                rec["reproduced"] = dict(values={}, label=g.label, key=g.key, detail=f"{f.label}: {str(f.detail)[:400]} | concrete twin: {str(g.detail)[:600]}")
                rec["key"] = f.key
            else:
                rec["replay"] = "not-reproduced"
            res["failures"].append(rec)
            continue
        if vals is None:
            rec["replay"] = "no-model"
            res["failures"].append(rec)
            continue
        pcs = getattr(f, "pc", None)
        tried = []
        if pcs is not None and f.kind in ("structural", "exception"):
            tried.append(_beautify(core, pcs, vals))
        tried.append(vals)
        if pcs is not None and desc.get("amplify"):
            # same path, all symbols scaled down: magnifies defects that hide behind absolute tolerances
            for sc in (Fraction(1, 100000), Fraction(1, 1000)):
                cand = {k: v * sc for k, v in vals.items()}
                if all(core.eval_under(c, cand) is True for c in pcs):
                    tried.insert(0, cand)
        reproduced = None
        for cand in tried:
            Mc, err = run_concrete(h, desc, cand)
            hit = [g for g in Mc.failures]
            if err and err[0] == "exception":
                hit.append(mode.Failure("exception", (M.key_prefix + "exception:" + err[1].split(":")[0]).replace(" ", "_"), err[1], cand, kind="exception"))
            if hit:
                same = [g for g in hit if g.key == f.key] or hit
                reproduced = dict(values={k: str(v) for k, v in cand.items()}, label=same[0].label, key=same[0].key,
                                  detail=str(same[0].detail)[:1500])
                break
        stubs.install()
        rec["replay"] = "reproduced" if reproduced else "not-reproduced"
        if reproduced:
            rec["reproduced"] = reproduced
            rec["key"] = reproduced["key"]
        res["failures"].append(rec)

    # ---- concrete cross-validation of the first path's witness (engine vs real numerics)
    if not M.failures and results and not res["errors"] and desc.get("validate", True):
        try:
            r0 = results[0]
            s = __import__("z3").Solver()
            s.add(*core.CTX.base)
            s.add(*r0.pc)
            s.set("timeout", 10000)
            if str(s.check()) == "sat":
                vals = core.model_values(s.model())
                Mc, err = run_concrete(h, desc, vals)
                stubs.install()
                if err and err[0] == "precondition":
                    pass
                elif err or Mc.failures:
                    # the real float64 code violates an obligation at the witness input: this IS a replayed
                    # violation (found by the concrete twin rather than by the solver)
                    if Mc.failures:
                        g = Mc.failures[0]
                        lab, key, det = g.label, g.key, str(g.detail)[:1500]
                    else:
                        lab, key, det = "exception", (M.key_prefix + "exception:" + err[1].split(":")[0]).replace(" ", "_"), err[1]
                    res["failures"].append(dict(label=lab, key=key, detail=det, kind="crossval", replay="reproduced",
                                                values={k: str(v) for k, v in vals.items()},
                                                reproduced=dict(values={k: str(v) for k, v in vals.items()}, label=lab, key=key, detail=det)))
                else:
                    res["validated"] = 1
        except core.HarnessError as e:
            res["errors"].append(["crossval-error", str(e)])
        finally:
            stubs.install()
    res["wall"] = time.time() - t0
    return res


def worker_main(pid, tier, seed, inq, outq, wid):
    sys.path.insert(0, VERIF)
    import warnings
    warnings.filterwarnings("ignore")
    try:
        h = load_harness(pid)
        scen = h.scenarios(tier, seed)
        import pgmpy.models, pgmpy.inference, pgmpy.estimators  # noqa: pay the import cost before the clock starts
        outq.put(("ready", wid))
        profiled = set()
        while True:
            try:
                i = inq.get(timeout=1)
            except queue.Empty:
                break
            if i is None:
                break
            desc = scen[i]
            fam = desc.get("family", "")
            prof = fam not in profiled and wid == 0
            profiled.add(fam)
            try:
                r = explore_scenario(h, desc, tier, profile=prof)
            except BaseException as e:  # noqa
                r = dict(desc=desc, errors=[["worker-exception", f"{type(e).__name__}: {e}", traceback.format_exc(limit=8)]],
                         paths=0, failures=[], wall=0)
            r["index"] = i
            outq.put(r)
    finally:
        outq.put(("done", wid))


# ------------------------------------------------------------------------------------------ main side


def load_known():
    known, fixed = [], []
    p = os.path.join(VERIF, "known_findings.txt")
    if os.path.exists(p):
        for line in open(p):
            line = line.strip()
            if not line or line.startswith("#"):
                continue
            kind, _, rest = line.partition(":")
            fields = dict(x.split("=", 1) for x in rest.split() if "=" in x and x.split("=", 1)[0] in ("property", "key"))
            if kind == "known":
                known.append((fields.get("property"), fields.get("key"), rest.strip()))
            elif kind == "fixed":
                fixed.append(rest.strip())
    return known, fixed


def main(argv=None):
    import argparse
    ap = argparse.ArgumentParser()
    ap.add_argument("pid")
    ap.add_argument("--tier", default=os.environ.get("VERIF_TIER", "quick"))
    ap.add_argument("--replay")
    ap.add_argument("--jobs", type=int, default=int(os.environ.get("VERIF_JOBS", "16")))
    ap.add_argument("--only")
    ap.add_argument("--limit", type=int)
    ap.add_argument("--no-evidence", action="store_true")
    a = ap.parse_args(argv)
    sys.path.insert(0, VERIF)
    pid = a.pid.upper()
    seed = int(os.environ.get("VERIF_SEED", "0"))
    h = load_harness(pid)
    if a.replay:
        return replay_main(h, pid, a.replay)
    t0 = time.time()
    scen = h.scenarios(a.tier, seed)
    idx = list(range(len(scen)))
    if a.only:
        idx = [i for i in idx if a.only in json.dumps(scen[i])]
    if a.limit:
        idx = idx[: a.limit]
    total_budget = getattr(h, "BUDGET", {"quick": 170, "thorough": 900})[a.tier]
    ctx = mp.get_context("spawn")
    outq = ctx.Queue()
    byseed = {}
    for i in idx:
        byseed.setdefault(scen[i].get("hashseed", 0), []).append(i)
    procs = []
    queues = []
    nw_total = max(1, min(a.jobs, len(idx)))
    wid = 0
    for hs, ids in sorted(byseed.items()):
        nw = max(1, round(nw_total * len(ids) / max(1, len(idx))))
        inq = ctx.Queue()
        queues.append(inq)
        # longest first when the harness provides a cost hint
        ids = sorted(ids, key=lambda i: -scen[i].get("cost", 1))
        for i in ids:
            inq.put(i)
        for _ in range(nw):
            inq.put(None)
        os.environ["PYTHONHASHSEED"] = str(hs)
        for _ in range(nw):
            p = ctx.Process(target=worker_main, args=(pid, a.tier, seed, inq, outq, wid))
            p.start()
            procs.append(p)
            wid += 1
    results = []
    done = 0
    # the budget clock starts when the first worker has finished importing (imports take ~10 s on an idle machine but minutes on a loaded one)
    deadline = t0 + total_budget + 900
    started = False
    while done < len(procs):
        try:
            r = outq.get(timeout=2)
        except queue.Empty:
            if time.time() > deadline:
                break
            if not any(p.is_alive() for p in procs):
                # drain
                try:
                    while True:
                        r = outq.get_nowait()
                        if isinstance(r, tuple):
                            done += 1 if r[0] == "done" else 0
                        else:
                            results.append(r)
                except queue.Empty:
                    pass
                break
            continue
        if isinstance(r, tuple):
            if r[0] == "ready":
                if not started:
                    started = True
                    deadline = time.time() + total_budget
            else:
                done += 1
        else:
            results.append(r)
    for p in procs:
        if p.is_alive():
            p.terminate()
    for p in procs:
        p.join(timeout=5)
    return report(h, pid, a, seed, scen, idx, results, time.time() - t0)


def report(h, pid, a, seed, scen, idx, results, wall):
    known, fixed = load_known()
    nscen = len(idx)
    ran = len(results)
    tot = dict(paths=0, decisions=0, obligations=0, identity=0, solver=0, structural=0, validated=0, unknown_branches=0,
               n_inconclusive=0, cut_paths=0)
    solver_time = 0.0
    funcs, stubs_hit, assumptions = set(), set(), []
    errors, failures, families = [], [], {}
    samples = []
    truncated = 0
    xc = {}
    xc_n = 0
    xc_bad = []
    canary = {}
    for r in results:
        for sv, d in (r.get("xcheck") or {}).items():
            for v, n in d.items():
                xc.setdefault(sv, {})[v] = xc.setdefault(sv, {}).get(v, 0) + n
        xc_n += r.get("xcheck_n", 0)
        for b in r.get("xcheck_disagree") or []:
            xc_bad.append(dict(desc=r["desc"], solver=b[0], smt2=b[1]))
        for k, v in (r.get("canary") or {}).items():
            canary[k] = canary.get(k, 0) + v
        for k in tot:
            tot[k] += r.get(k, 0) or 0
        solver_time += r.get("solver_time", 0.0)
        funcs.update(r.get("functions", []))
        stubs_hit.update(r.get("stubs", []))
        for s in r.get("assumptions", []):
            if s not in assumptions:
                assumptions.append(s)
        truncated += 1 if r.get("truncated") else 0
        fam = r["desc"].get("family", "")
        f = families.setdefault(fam, dict(scenarios=0, paths=0, obligations=0))
        f["scenarios"] += 1
        f["paths"] += r.get("paths", 0)
        f["obligations"] += r.get("obligations", 0)
        for e in r.get("errors", []):
            errors.append(dict(desc=r["desc"], error=e))
        for fl in r.get("failures", []):
            failures.append(dict(desc=r["desc"], **fl))
        if len(samples) < 6 and r.get("paths"):
            samples.append(dict(scenario=r["desc"], paths=r["paths"], decisions=r.get("decisions"),
                                obligations=r.get("obligations"), example_obligations=r.get("samples", [])))
    if os.environ.get("VERIF_TIMING"):
        for r in sorted(results, key=lambda r: -r.get("wall", 0))[:12]:
            print(f"timing: {r.get('wall', 0):6.1f}s paths={r.get('paths')} inconcl={r.get('n_inconclusive')} {json.dumps(r['desc'], default=str)[:260]}")
    violations, known_hits, unrepro = [], [], []
    for fl in failures:
        if fl.get("replay") != "reproduced":
            unrepro.append(fl)
            continue
        k = next((kn for kn in known if kn[0] == pid and kn[1] and fnmatch.fnmatchcase(fl["key"], kn[1])), None)
        if k:
            known_hits.append((k, fl))
        else:
            violations.append(fl)
    os.makedirs(os.path.join(VERIF, "replays", pid), exist_ok=True)
    printed = set()
    for k, fl in known_hits:
        if k[1] not in printed:
            printed.add(k[1])
            print(f"KNOWN-FINDING: {k[2]}")
    vio_keys = {}
    for fl in violations:
        vio_keys.setdefault(fl["key"], fl)
    for key, fl in vio_keys.items():
        body = dict(property=pid, desc=fl["desc"], values=fl["reproduced"]["values"], key=key, label=fl["reproduced"]["label"],
                    detail=fl["reproduced"]["detail"])
        hsh = hashlib.sha1(json.dumps(body, sort_keys=True, default=str).encode()).hexdigest()[:12]
        path = os.path.join(VERIF, "replays", pid, f"{hsh}.json")
        with open(path, "w") as fh:
            json.dump(body, fh, indent=1, default=str)
        print(f"VIOLATION property={pid} replay={path}")
        print(f"  key={key} label={body['label']} :: {body['detail'][:300]}")
    harness_errors = [e for e in errors if e["error"] and e["error"][0] in ("crossval-mismatch", "worker-exception", "crossval-error")
                      or (isinstance(e["error"], str))]
    if unrepro:
        print(f"note: {len(unrepro)} solver counterexample(s) did not reproduce on the float64 code (reported as inconclusive)")
        for fl in unrepro[:5]:
            print("   ", fl["key"], str(fl.get("detail"))[:200], json.dumps(fl["desc"])[:200])
    if xc_bad:
        print(f"note: {len(xc_bad)} second-solver DISAGREEMENT(s) on queries answered unsat in-process; first: {json.dumps(xc_bad[0], default=str)[:800]}")
    if canary.get("proved_unexpectedly"):
        print(f"note: {canary['proved_unexpectedly']} canary obligation(s) (cross-wired, must be refutable) were PROVED: vacuity suspected")
    if errors:
        print(f"note: {len(errors)} scenario error(s); first: {json.dumps(errors[0], default=str)[:600]}")
    level = getattr(h, "LEVEL", "model_checking")
    ev = dict(
        property_id=pid, tier=a.tier, seed=seed, level=level,
        coverage=dict(
            states=tot["paths"], transitions=max(tot["decisions"], tot["paths"]),
            traces_validated_against_impl=tot["validated"],
            samples=samples or [dict(note="no scenario finished")],
            scenarios_enumerated=nscen, scenarios_completed=ran, scenarios_truncated=truncated,
            families=families,
            obligations=tot["obligations"], discharged=tot["obligations"] - tot["n_inconclusive"] - len(failures),
            discharged_by_identity=tot["identity"], discharged_by_solver_query=tot["solver"],
            structural_checks=tot["structural"],
            inconclusive=tot["n_inconclusive"], undischarged_branches=tot["unknown_branches"], cut_paths=tot["cut_paths"],
            unreproduced_counterexamples=len(unrepro), scenario_errors=len(errors),
            error_examples=[json.dumps(e, default=str)[:400] for e in errors[:5]],
            solver_time_s=round(solver_time, 2), solver="z3 " + __import__("z3").get_version_string(),
            functions_encoded=sorted(funcs), stubs_hit=sorted(stubs_hit),
            bounds=getattr(h, "BOUNDS", {}).get(a.tier, ""),
            known_findings_matched=sorted(printed),
            second_solver_recheck=dict(unsat_queries_resubmitted=xc_n, verdicts=xc, disagreements=len(xc_bad),
                                       note="sample of the queries the in-process z3 answered unsat (obligations and pruned branches), "
                                            "re-decided from SMT-LIB2 text by /usr/bin/z3 4.8.12 and the cvc5 1.0 binary; anything but unsat/sat is inconclusive"),
            canaries=canary,
            hash_seeds=sorted({scen[i].get("hashseed", 0) for i in idx}),
            exhaustive=False,
        ),
        assumptions=(getattr(h, "ASSUMPTIONS", []) + assumptions)[:60],
        wall_s=round(wall, 2), violations=len(vio_keys),
    )
    if hasattr(h, "extra_evidence"):
        ev["coverage"].update(h.extra_evidence(a.tier))
    if not a.no_evidence:
        os.makedirs(os.path.join(VERIF, "evidence"), exist_ok=True)
        with open(os.path.join(VERIF, "evidence", f"{pid}.json"), "w") as fh:
            json.dump(ev, fh, indent=1, default=str)
    print(f"{pid} {a.tier}: scenarios {ran}/{nscen} paths {tot['paths']} decisions {tot['decisions']} obligations {tot['obligations']} "
          f"(identity {tot['identity']}, solver {tot['solver']}, structural {tot['structural']}) inconclusive {tot['n_inconclusive']} "
          f"unknown-branches {tot['unknown_branches']} validated {tot['validated']} errors {len(errors)} "
          f"violations {len(vio_keys)} known {len(printed)} wall {wall:.1f}s")
    if vio_keys:
        return 1
    if ran == 0:
        print("harness error: no scenario completed")
        return 3
    return 0


def replay_main(h, pid, path):
    body = json.load(open(path))
    desc = body["desc"]
    vals = {k: Fraction(v) for k, v in body["values"].items()}
    M, err = run_concrete(h, desc, vals)
    if err and err[0] == "exception":
        print(f"replay: exception on real code: {err[1]}")
        print(f"VIOLATION property={pid} replay={path}")
        return 1
    if M.failures:
        for f in M.failures[:5]:
            print(f"replay: {f.label}: {f.detail}")
        print(f"VIOLATION property={pid} replay={path}")
        return 1
    print("replay: no discrepancy on the current tree")
    return 0


if __name__ == "__main__":
    sys.exit(main())

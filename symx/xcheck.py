"""Second-solver cross-check: a sample of the queries that z3 (wheel, in-process) answered `unsat` - the answers every
"holds for all values" verdict and every pruned branch rests on - is dumped as SMT-LIB2 and re-decided by two independent
binaries, /usr/bin/z3 (4.8.12) and cvc5 (1.0.x).  A different verdict (sat) is a disagreement; `unknown`, time-outs and
`(error` lines are inconclusive and only counted.  Nothing here can turn a verdict into "holds"."""
import os
import shutil
import subprocess
import tempfile

SOLVERS = {
    "z3-4.8.12": lambda f, t: ["/usr/bin/z3", f"-T:{t}", f],
    "cvc5-1.0": lambda f, t: ["cvc5", f"--tlimit={t * 1000}", f],
}


def _verdict(out):
    if "(error" in out:
        return "error"
    for line in out.splitlines():
        line = line.strip()
        if line in ("sat", "unsat", "unknown"):
            return line
        if line.startswith("timeout") or "interrupted" in line:
            return "timeout"
    return "timeout" if not out.strip() else "error"


def recheck(smt2_texts, timeout_s=10):
    """-> dict solver -> dict(verdict -> count), plus list of disagreeing texts (at most 2)"""
    res = {k: {} for k in SOLVERS}
    bad = []
    if not smt2_texts:
        return res, bad
    d = tempfile.mkdtemp(prefix="symx_x_")
    try:
        for i, txt in enumerate(smt2_texts):
            f = os.path.join(d, f"q{i}.smt2")
            with open(f, "w") as fh:
                fh.write(txt)
            for name, mk in SOLVERS.items():
                exe = mk(f, timeout_s)
                if shutil.which(exe[0]) is None and not os.path.exists(exe[0]):
                    v = "missing"
                else:
                    try:
                        p = subprocess.run(exe, capture_output=True, text=True, timeout=timeout_s + 5)
                        v = _verdict(p.stdout + p.stderr)
                    except subprocess.TimeoutExpired:
                        v = "timeout"
                res[name][v] = res[name].get(v, 0) + 1
                if v == "sat" and len(bad) < 2:
                    bad.append((name, txt[:4000]))
    finally:
        shutil.rmtree(d, ignore_errors=True)
    return res, bad

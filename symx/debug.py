"""in-process single scenario run: python -m symx.debug C01 <index|substring> [tier]"""
import sys, json, time
sys.path.insert(0, "/verif")
from symx import runner
pid = sys.argv[1]; sel = sys.argv[2]; tier = sys.argv[3] if len(sys.argv) > 3 else "quick"
h = runner.load_harness(pid)
sc = h.scenarios(tier, 0)
ids = [int(sel)] if sel.isdigit() else [i for i, d in enumerate(sc) if sel in json.dumps(d)][:int(sys.argv[4]) if len(sys.argv) > 4 else 3]
print(len(sc), "scenarios")
for i in ids:
    t = time.time()
    r = runner.explore_scenario(h, sc[i], tier, profile=False)
    r.pop("functions", None)
    print(i, json.dumps(r, default=str, indent=None)[:3000])

"""symx core: symbolic execution of the real pgmpy code by re-execution.

SymReal  - scalar in the rational-function field Q(theta_1..theta_k) kept in canonical reduced form
           (sympy FracField, exact GCD cancellation); its z3 term is generated on demand.
SymBool  - z3 Bool wrapper; bool() is the only fork point (Engine.decide).
Engine   - one run along one decision prefix; explore() re-runs the harness once per feasible prefix.
prove()  - pose "base and pc imply claim" to z3; returns proved / cex(model) / unknown.

See DESIGN.md section 3.  Nothing in here imports pgmpy.
"""
import math
import numbers
import time
from fractions import Fraction

import numpy as _np
import z3
from sympy import QQ, field

BRANCH_TIMEOUT_MS = 5000
OBLIGATION_TIMEOUT_MS = 20000
# second-solver cross-check (symx/xcheck.py): per scenario, the 1st, 4th, 16th, 64th ... query answered `unsat` is kept as SMT-LIB2 text
XCHECK = dict(budget=0, seen=0, dumps=[])


class HarnessError(Exception):
    """The harness/engine itself is wrong (never reported as a property violation)."""


class Concretized(TypeError, ValueError):
    """A symbolic value was forced to a concrete float by library code (engine limitation)."""


class PathLimit(BaseException):
    """Raised to cut a path (depth/loop bound); BaseException so that pgmpy's `except Exception` cannot swallow it."""


# --------------------------------------------------------------------------------------------
# context: generators of the field + z3 constants


class Ctx:
    def __init__(self, names, extra=0):
        self.names = list(names)
        self.pool = [f"_p{i}" for i in range(extra)]
        allnames = self.names + self.pool
        if not allnames:
            allnames = ["_dummy"]
        res = field(",".join(allnames), QQ)
        self.K = res[0]
        gens = res[1:] if len(allnames) > 1 else (res[1],)
        self.gens = dict(zip(allnames, gens))
        self.zvars = {n: z3.Real(n) for n in allnames}
        self.pool_used = 0
        self.uf_apps = {}  # (fname, canonical arg) -> SymReal generator
        self.uf_decl = {}
        self.base = []  # z3 constraints valid on every path (assumptions + definitions)
        self.assumptions = []  # human-readable
        self._pcache = {}
        self.bvars = {}
        self.known_pos = set()
        self.known_pos_polys = []
        self.pos_gens = set()
        self.nonneg_gens = set()
        self._possign_cache = {}
        self.one = self.K(1)
        self.zero = self.K(0)

    def sym(self, name, pos=False):
        return SymReal(self.gens[name], pos)

    def fresh(self, pos=False):
        if self.pool_used >= len(self.pool):
            raise HarnessError("symbol pool exhausted")
        n = self.pool[self.pool_used]
        self.pool_used += 1
        return SymReal(self.gens[n], pos), self.zvars[n]

    def uf(self, fname, arg):
        """Uninterpreted real function application; congruent by canonical argument and by z3 function."""
        arg = SymReal.lift(arg)
        key = (fname, arg.q)
        if key not in self.uf_apps:
            g, zv = self.fresh()
            if fname not in self.uf_decl:
                self.uf_decl[fname] = z3.Function(fname, z3.RealSort(), z3.RealSort())
            self.base.append(zv == self.uf_decl[fname](arg.e))
            self.uf_apps[key] = g
        return self.uf_apps[key]

    def boolvar(self, name):
        if name not in self.bvars:
            self.bvars[name] = z3.Bool(name)
        return self.bvars[name]

    def assume(self, zexpr, text=None):
        self.base.append(zexpr)
        if text:
            self.assumptions.append(text)


CTX = None
ENG = None


def set_ctx(names, extra=0):
    global CTX
    CTX = Ctx(names, extra)
    return CTX


def RV(x):
    fr = Fraction(x)
    if fr.denominator == 1:
        return z3.RealVal(str(fr.numerator))
    return z3.Q(fr.numerator, fr.denominator)


def poly_to_z3(p):
    c = CTX._pcache.get(p)
    if c is not None:
        return c
    ring = p.ring
    gens = [CTX.zvars[str(g)] for g in ring.symbols]
    terms = []
    for mon, coeff in p.terms():
        fr = Fraction(int(coeff.numerator), int(coeff.denominator))
        fs = []
        for g, e in zip(gens, mon):
            fs.extend([g] * e)
        if not fs:
            terms.append(RV(fr))
        else:
            t = fs[0]
            for f in fs[1:]:
                t = t * f
            terms.append(t if fr == 1 else RV(fr) * t)
    r = z3.Sum(terms) if len(terms) > 1 else (terms[0] if terms else z3.RealVal(0))
    CTX._pcache[p] = r
    return r



def poly_sign(p):
    """+1 / -1 if the polynomial p is syntactically known to be strictly positive / negative under the harness's
    declared symbol ranges and registered positive expressions; None otherwise.  Sound, incomplete."""
    c = CTX._possign_cache.get(p)
    if c is not None:
        return c[0]
    r = _poly_sign(p)
    CTX._possign_cache[p] = (r,)
    return r


def _poly_sign(p):
    if p.is_ground:
        if p.is_zero:
            return None
        return 1 if p.coeff(1) > 0 else -1
    syms = [str(g) for g in p.ring.symbols]
    for sgn in (1, -1):
        ok = True
        strict = False
        for mon, coeff in p.terms():
            if coeff * sgn < 0:
                ok = False
                break
            allpos = True
            for sname, e in zip(syms, mon):
                if e:
                    if sname in CTX.pos_gens:
                        continue
                    if sname in CTX.nonneg_gens or e % 2 == 0:
                        allpos = False
                        continue
                    ok = False
                    break
            if not ok:
                break
            if allpos:
                strict = True
        if ok and strict:
            return sgn
    # divisible by registered positive polynomials down to a constant?
    q = p
    sign = 1
    changed = True
    while changed and not q.is_ground:
        changed = False
        for kp in CTX.known_pos_polys:
            if kp.is_ground:
                continue
            try:
                quo, rem = q.div(kp)
            except Exception:  # noqa
                continue
            if rem.is_zero:
                q = quo
                changed = True
                break
    if q.is_ground and not q.is_zero:
        return sign * (1 if q.coeff(1) > 0 else -1)
    if q is not p:
        r = _poly_sign_coeffs_only(q)
        if r is not None:
            return r
    return None


def _poly_sign_coeffs_only(p):
    syms = [str(g) for g in p.ring.symbols]
    for sgn in (1, -1):
        ok, strict = True, False
        for mon, coeff in p.terms():
            if coeff * sgn < 0:
                ok = False
                break
            allpos = True
            for sname, e in zip(syms, mon):
                if e and sname not in CTX.pos_gens:
                    allpos = False
                    if not (sname in CTX.nonneg_gens or e % 2 == 0):
                        ok = False
                        break
            if not ok:
                break
            strict = strict or allpos
        if ok and strict:
            return sgn
    return None


def register_pos(x):
    """x (SymReal) is assumed/known strictly positive on every path of this scenario."""
    x.pos = True
    CTX.known_pos.add(x.q)
    n, d = x.q.numer, x.q.denom
    if d.is_ground and not n.is_ground:
        if d.coeff(1) < 0:
            n = -n
        if n not in CTX.known_pos_polys:
            CTX.known_pos_polys.append(n)
            CTX._possign_cache.clear()


def cmp_zero(d, op):
    """z3 Bool (or Python bool) for  d op 0  where d is a field element; uses the numerator only when the
    denominator's sign is known (keeps divisions out of the solver and makes path conditions and obligations
    share the same polynomial atoms)."""
    import operator
    ops = {"lt": operator.lt, "le": operator.le, "gt": operator.gt, "ge": operator.ge, "eq": operator.eq}
    flip = {"lt": "gt", "le": "ge", "gt": "lt", "ge": "le", "eq": "eq"}
    if d == 0:
        return op in ("le", "ge", "eq")
    num, den = d.numer, d.denom
    if num.is_ground and den.is_ground:
        v = Fraction(int(num.coeff(1).numerator), int(num.coeff(1).denominator)) / Fraction(int(den.coeff(1).numerator), int(den.coeff(1).denominator))
        return ops[op](v, 0)
    sd = poly_sign(den)
    if sd is None:
        if op == "eq":
            return poly_to_z3(num) == 0
        e = poly_to_z3(num) / poly_to_z3(den)
        return ops[op](e, 0)
    if sd < 0:
        op = flip[op]
    sn = poly_sign(num)
    if sn is not None:
        return ops[op](sn, 0)
    # normalise the sign of the leading coefficient so that p and -p yield the same atom
    lc = num.LC
    if lc < 0:
        num = -num
        op = flip[op]
    return ops[op](poly_to_z3(num), 0)


# --------------------------------------------------------------------------------------------
# engine


class Engine:
    def __init__(self, prefix, pending, unknowns, branch_timeout_ms, prefix_model=None):
        self.prefix_model = prefix_model
        self.pc = []
        self.trace = []
        self.prefix = prefix
        self.pending = pending
        self.unknowns = unknowns
        self.branch_timeout_ms = branch_timeout_ms
        self.stats = dict(decides=0, solver_calls=0, solver_time=0.0, unknown_branches=0)
        self.solver = z3.Solver()
        self.nbase = 0
        self.model = None
        self.max_decisions = 4000
        self.tolerance_hits = 0
        self.deadline = None
        self.unknown_obligations = 0
        self.max_unknown_obligations = 3
        self.dcache = {}

    def _sync_base(self):
        b = CTX.base
        if self.nbase < len(b):
            self.solver.add(*b[self.nbase:])
            self.nbase = len(b)
            self.model = None

    def witness(self):
        self._sync_base()
        if self.model is None and not self.pc:
            # prefer a generic point over z3's (typically degenerate, all-equal) model of the base constraints
            names = CTX.names + CTX.pool[: CTX.pool_used]
            for scale in (Fraction(1, 4), Fraction(1, 8), Fraction(1, 2), Fraction(1, 16), Fraction(1), Fraction(3)):
                cand = {n: scale * Fraction(17 + (7 * i) % 23, 32) for i, n in enumerate(names)}
                dm = DictModel(cand)
                if all(z3.is_true(dm.eval(c)) for c in CTX.base):
                    self.model = dm
                    break
            if self.model is None and (CTX.uf_apps or CTX.pool_used):
                # definitional / uninterpreted-function constraints cannot be evaluated by substitution: pin the named symbols to a generic
                # point and let z3 complete the model (ground propagation only)
                for scale in (Fraction(1, 4), Fraction(1), Fraction(1, 16)):
                    pins = [CTX.zvars[n] == RV(scale * Fraction(17 + (7 * i) % 23, 32)) for i, n in enumerate(CTX.names)]
                    self.solver.push()
                    self.solver.add(*pins)
                    self.solver.set("timeout", 5000)
                    r = str(self.solver.check())
                    if r == "sat":
                        self.model = self.solver.model()
                    self.solver.pop()
                    if self.model is not None:
                        break
        if self.model is None:
            self.solver.push()
            self.solver.add(*self.pc)
            self.solver.set("timeout", 60000)
            r = str(self.solver.check())
            if r != "sat":
                self.solver.pop()
                raise HarnessError(f"path condition has no model ({r}); vacuous path")
            self.model = self.solver.model()
            self.solver.pop()
        return self.model

    def _check(self, extra, timeout_ms):
        self._sync_base()
        t0 = time.time()
        if self.deadline is not None:
            left = self.deadline - t0
            if left <= 0.2:
                return "unknown", None
            timeout_ms = int(min(timeout_ms, left * 1000))
        self.solver.push()
        self.solver.add(*self.pc)
        self.solver.add(*extra)
        self.solver.set("timeout", timeout_ms)
        r = str(self.solver.check())
        m = self.solver.model() if r == "sat" else None
        if r == "unsat" and XCHECK["budget"] > len(XCHECK["dumps"]):
            XCHECK["seen"] += 1
            n = XCHECK["seen"]
            if n & (n - 1) == 0 and (n.bit_length() - 1) % 2 == 0:
                try:
                    XCHECK["dumps"].append(self.solver.to_smt2())
                except Exception:  # noqa
                    pass
        self.solver.pop()
        self.stats["solver_calls"] += 1
        self.stats["solver_time"] += time.time() - t0
        return r, m

    def decide(self, expr):
        expr = z3.simplify(expr)
        if z3.is_true(expr):
            return True
        if z3.is_false(expr):
            return False
        cid = expr.get_id()
        if cid in self.dcache:
            return self.dcache[cid][1]
        self.stats["decides"] += 1
        if self.stats["decides"] > self.max_decisions:
            raise PathLimit("decision bound")
        i = len(self.trace)
        if i < len(self.prefix):
            d = self.prefix[i]
            self.dcache[cid] = (expr, d)
            self.trace.append(d)
            self.pc.append(expr if d else z3.Not(expr))
            self.model = None
            if i == len(self.prefix) - 1 and self.prefix_model is not None and self.nbase == len(CTX.base):
                self.model = self.prefix_model  # found when this prefix was queued: a witness of base+pc
            return d
        ev = self.witness().eval(expr, model_completion=True)
        if not (z3.is_true(ev) or z3.is_false(ev)) and isinstance(self.model, DictModel):
            # the explicit witness predates symbols created later on this path (fresh atoms): complete it with generic values and re-verify
            ext = self.model.completed()
            if ext is not None and all(z3.is_true(ext.eval(c)) for c in list(CTX.base) + list(self.pc)):
                self.model = ext
                ev = ext.eval(expr)
        if not (z3.is_true(ev) or z3.is_false(ev)):
            r, m = self._check([expr], self.branch_timeout_ms)
            if r == "unknown":
                r2, m2 = self._check([z3.Not(expr)], self.branch_timeout_ms)
                if r2 != "sat":
                    raise HarnessError("cannot establish either branch of a decision")
                w = False
                self.model = m2
                self.unknowns.append((list(self.trace), "branch-true-unknown"))
                self.stats["unknown_branches"] += 1
                self.trace.append(w)
                self.pc.append(z3.Not(expr))
                self.dcache[cid] = (expr, w)
                return w
            w = r == "sat"
            self.model = m if w else None
        else:
            w = z3.is_true(ev)
        other = z3.Not(expr) if w else expr
        r, m = self._check([other], self.branch_timeout_ms)
        if r == "unknown":
            m = self._try_candidates(other)
            if m is not None:
                r = "sat"
                self.stats["candidate_models"] = self.stats.get("candidate_models", 0) + 1
        if r == "unknown":
            self.stats["unknown_branches"] += 1
            self.unknowns.append((self.trace + [not w], "branch-unknown"))
        elif r == "sat":
            self.pending.append((self.trace + [not w], m))
        self.trace.append(w)
        self.pc.append(expr if w else z3.Not(expr))
        self.dcache[cid] = (expr, w)
        return w

    def _try_candidates(self, extra, perturb_only=False):
        """z3 said unknown: try a few explicit assignments (scaled witness, constant vectors); a candidate counts
        only if every constraint of base + pc + extra evaluates to true exactly."""
        try:
            basev = model_values(self.witness(), CTX.names)
        except HarnessError:
            return None
        cons = [extra] + list(self.pc) + list(CTX.base)
        for ci, cand in enumerate(_candidate_models(basev)):
            if perturb_only and ci >= 3:
                break
            for n in CTX.pool[: CTX.pool_used]:
                cand.setdefault(n, Fraction(1, 2))
            dm = DictModel(cand)
            ok = True
            for c in cons:
                if not z3.is_true(dm.eval(c)):
                    ok = False
                    break
            if ok:
                return dm
        return None

    # ---- obligations
    def prove(self, claim, timeout_ms=None):
        """claim: z3 Bool.  Returns ('proved', None) | ('cex', model) | ('unknown', None)."""
        claim = z3.simplify(claim)
        if z3.is_true(claim):
            return "proved", None
        # concolic shortcut: the path's own witness is a generic point of the path condition; if the claim is false
        # there it is a counterexample outright (exact evaluation), no search needed
        try:
            w = self.witness()
            ev = w.eval(claim, model_completion=True)
            if z3.is_false(ev):
                self.stats["cex_by_witness"] = self.stats.get("cex_by_witness", 0) + 1
                return "cex", w
            # z3's witnesses are often degenerate (all symbols equal); also test generic points near it
            m = self._try_candidates(z3.Not(claim), perturb_only=True)
            if m is not None:
                self.stats["cex_by_witness"] = self.stats.get("cex_by_witness", 0) + 1
                return "cex", m
        except HarnessError:
            pass
        if self.unknown_obligations >= self.max_unknown_obligations:
            return "unknown", None
        r, m = self._check([z3.Not(claim)], timeout_ms or OBLIGATION_TIMEOUT_MS)
        if r == "unknown":
            self.unknown_obligations += 1
            m = self._try_candidates(z3.Not(claim))
            if m is not None:
                return "cex", m
        if r == "unsat":
            return "proved", None
        if r == "sat":
            return "cex", m
        return "unknown", None


class DictModel:
    """A model given as an explicit rational assignment (found by the candidate heuristic, verified exactly)."""

    def __init__(self, values):
        self.values = dict(values)
        self._subs = [(CTX.zvars[n], RV(v)) if n in CTX.zvars else (CTX.bvars[n], z3.BoolVal(bool(v)))
                      for n, v in self.values.items() if n in CTX.zvars or n in CTX.bvars]

    def eval(self, expr, model_completion=True):
        return z3.simplify(z3.substitute(expr, *self._subs))

    def completed(self):
        missing = [n for n in CTX.names + CTX.pool[: CTX.pool_used] if n not in self.values]
        if not missing:
            return None
        vals = dict(self.values)
        for i, n in enumerate(missing):
            vals[n] = Fraction(33 + (5 * i) % 29, 64)
        return DictModel(vals)


def _candidate_models(base_vals):
    names = [n for n in base_vals if n in CTX.zvars]
    import random
    rnd = random.Random(12345)
    for _ in range(3):
        yield {n: base_vals[n] * Fraction(rnd.randint(33, 64), 64) for n in names}
    for sc in (Fraction(1, 100000), Fraction(1, 1000), Fraction(1000)):
        yield {n: base_vals[n] * sc for n in names}
    for c in (Fraction(1), Fraction(1, 2), Fraction(1, 100000), Fraction(1, 3)):
        yield {n: c for n in names}


class PathResult:
    __slots__ = ("trace", "pc", "out", "stats", "error", "witness")

    def __init__(self, trace, pc, out, stats, error=None, witness=None):
        self.trace, self.pc, self.out, self.stats, self.error, self.witness = trace, pc, out, stats, error, witness


def explore(fn, max_paths=5000, branch_timeout_ms=None, deadline=None):
    """Run fn() once per feasible decision prefix.  fn reads the module-level ENG implicitly through SymBool.
    Returns (results, totals, unknown_branches, truncated)."""
    global ENG
    pending = [([], None)]
    results = []
    unknowns = []
    tot = {}
    truncated = False
    while pending:
        if len(results) >= max_paths or (deadline and time.time() > deadline):
            truncated = True
            break
        pre, pm = pending.pop()
        ENG = Engine(pre, pending, unknowns, branch_timeout_ms or BRANCH_TIMEOUT_MS, pm)
        ENG.deadline = deadline + 5 if deadline else None
        err = None
        out = None
        try:
            out = fn()
        except PathLimit as e:
            err = ("pathlimit", str(e))
        for k, v in ENG.stats.items():
            tot[k] = tot.get(k, 0) + v
        results.append(PathResult(list(ENG.trace), list(ENG.pc), out, dict(ENG.stats), err))
    ENG = None
    return results, tot, unknowns, truncated


# --------------------------------------------------------------------------------------------
# symbolic scalars


class SymBool:
    __slots__ = ("e",)

    def __init__(self, e):
        self.e = e

    def __bool__(self):
        if ENG is None:
            ev = z3.simplify(self.e)
            if z3.is_true(ev):
                return True
            if z3.is_false(ev):
                return False
            raise HarnessError("symbolic branch outside explore()")
        return ENG.decide(self.e)

    def __and__(self, o):
        return SymBool(z3.And(self.e, _b(o)))

    __rand__ = __and__

    def __or__(self, o):
        return SymBool(z3.Or(self.e, _b(o)))

    __ror__ = __or__

    def __invert__(self):
        return SymBool(z3.Not(self.e))

    def __repr__(self):
        return f"SymBool({self.e})"


def _b(o):
    if isinstance(o, SymBool):
        return o.e
    return z3.BoolVal(bool(o))


def zbool(o):
    return _b(o)


def _isspecial(o):
    return isinstance(o, float) and (math.isnan(o) or math.isinf(o))


class SymReal:
    __slots__ = ("q", "pos", "_e")

    def __init__(self, q, pos=False):
        self.q = q
        self.pos = pos
        self._e = None

    # -- z3 view
    @property
    def e(self):
        if self._e is None:
            n = poly_to_z3(self.q.numer)
            d = self.q.denom
            self._e = n if d == d.ring.one else n / poly_to_z3(d)
        return self._e

    @property
    def num_e(self):
        return poly_to_z3(self.q.numer)

    @property
    def den_e(self):
        return poly_to_z3(self.q.denom)

    def is_const(self):
        return self.q.numer.is_ground and self.q.denom.is_ground

    def const(self):
        n = self.q.numer.coeff(1) if not self.q.numer.is_zero else 0
        d = self.q.denom.coeff(1)
        return Fraction(int(n.numerator), int(n.denominator)) / Fraction(int(d.numerator), int(d.denominator)) if n != 0 else Fraction(0)

    @staticmethod
    def lift(o):
        if isinstance(o, SymReal):
            return o
        if isinstance(o, (bool, numbers.Integral)):
            return SymReal(CTX.K(int(o)), pos=int(o) > 0)
        if isinstance(o, numbers.Rational):
            return SymReal(CTX.K(QQ(o.numerator, o.denominator)), pos=o > 0)
        if isinstance(o, numbers.Real):
            f = float(o)
            if math.isnan(f) or math.isinf(f):
                return None
            fr = Fraction(f)
            return SymReal(CTX.K(QQ(fr.numerator, fr.denominator)), pos=f > 0)
        if isinstance(o, _np.ndarray) and o.ndim == 0 and o.dtype == object:
            return SymReal.lift(o[()])
        return NotImplemented

    def sign_pos(self):
        if self.q in CTX.known_pos:
            self.pos = True
        if self.pos:
            return True
        r = cmp_zero(self.q, "gt")
        return r if isinstance(r, bool) else bool(SymBool(r))

    def iszero(self):
        if self.q == 0:
            return True
        if self.pos:
            return False
        if self.q in CTX.known_pos or poly_sign(self.q.numer) is not None:
            return False
        return bool(SymBool(self.num_e == 0))

    def _special(self, o, op):
        # o is nan/inf float
        if math.isnan(o):
            return float("nan")
        if op in ("add", "radd", "rsub"):
            return o
        if op == "sub":
            return -o
        if op in ("mul", "rmul"):
            if self.iszero():
                return float("nan")
            return o if self.sign_pos() else -o
        if op == "div":
            return 0.0
        if op == "rdiv":
            if self.iszero():
                return o
            return o if self.sign_pos() else -o
        raise HarnessError(op)

    def __add__(self, o):
        o2 = SymReal.lift(o)
        if o2 is NotImplemented:
            return o2
        if o2 is None:
            return self._special(float(o), "add")
        return SymReal(self.q + o2.q, (self.pos and (o2.pos or o2.q == 0)) or (o2.pos and self.q == 0))

    __radd__ = __add__

    def __neg__(self):
        return SymReal(-self.q)

    def __pos__(self):
        return self

    def __sub__(self, o):
        o2 = SymReal.lift(o)
        if o2 is NotImplemented:
            return o2
        if o2 is None:
            return self._special(float(o), "sub")
        return SymReal(self.q - o2.q)

    def __rsub__(self, o):
        o2 = SymReal.lift(o)
        if o2 is NotImplemented:
            return o2
        if o2 is None:
            return self._special(float(o), "rsub")
        return SymReal(o2.q - self.q)

    def __mul__(self, o):
        o2 = SymReal.lift(o)
        if o2 is NotImplemented:
            return o2
        if o2 is None:
            return self._special(float(o), "mul")
        return SymReal(self.q * o2.q, self.pos and o2.pos)

    __rmul__ = __mul__

    def __truediv__(self, o):
        o2 = SymReal.lift(o)
        if o2 is NotImplemented:
            return o2
        if o2 is None:
            return self._special(float(o), "div")
        if o2.iszero():
            if self.iszero():
                return float("nan")
            return float("inf") if self.sign_pos() else float("-inf")
        return SymReal(self.q / o2.q, self.pos and o2.pos)

    def __rtruediv__(self, o):
        o2 = SymReal.lift(o)
        if o2 is NotImplemented:
            return o2
        if o2 is None:
            return self._special(float(o), "rdiv")
        return o2.__truediv__(self)

    def __pow__(self, k):
        if isinstance(k, numbers.Integral):
            k = int(k)
            if k >= 0:
                return SymReal(self.q ** k, self.pos)
            return SymReal.lift(1) / SymReal(self.q ** (-k), self.pos)
        return NotImplemented

    def _cmp(self, o, op, special):
        o2 = SymReal.lift(o)
        if o2 is NotImplemented:
            return o2
        if o2 is None:
            return special(float(o))
        r = cmp_zero(self.q - o2.q, op)
        if isinstance(r, bool):
            return r
        return SymBool(r)

    def __lt__(self, o):
        return self._cmp(o, "lt", lambda s: s == float("inf"))

    def __le__(self, o):
        return self._cmp(o, "le", lambda s: s == float("inf"))

    def __gt__(self, o):
        return self._cmp(o, "gt", lambda s: s == float("-inf"))

    def __ge__(self, o):
        return self._cmp(o, "ge", lambda s: s == float("-inf"))

    def __eq__(self, o):
        o2 = SymReal.lift(o)
        if o2 is NotImplemented or o2 is None:
            return False
        if self.q == o2.q:
            return True
        r = cmp_zero(self.q - o2.q, "eq")
        if isinstance(r, bool):
            return r
        return SymBool(r)

    def __ne__(self, o):
        r = self.__eq__(o)
        return (not r) if isinstance(r, bool) else SymBool(z3.Not(r.e))

    def __hash__(self):
        return hash(self.q)

    def __deepcopy__(self, memo):
        return self  # immutable

    def __copy__(self):
        return self

    def __abs__(self):
        if self.pos:
            return self
        r = cmp_zero(self.q, "ge")
        if isinstance(r, bool):
            return self if r else -self
        return self if bool(SymBool(r)) else -self

    def __bool__(self):
        return not self.iszero()

    def __float__(self):
        if self.is_const():
            return float(self.const())
        raise Concretized(f"symbolic value forced to float: {self!r}")

    def __repr__(self):
        return f"S({self.q})"

    __str__ = __repr__

    # numpy 0-d scalar duck typing (object einsum / reductions return bare elements)
    def _arr0(self):
        a = _np.empty((), dtype=object)
        a[()] = self
        return a

    def flatten(self, *a, **k):
        return self._arr0().reshape(1)

    ravel = flatten

    def reshape(self, *shape, **k):
        return self._arr0().reshape(*shape)

    def sum(self, *a, **k):
        return self

    def max(self, *a, **k):
        return self

    def min(self, *a, **k):
        return self

    def copy(self):
        return self

    def item(self):
        return self

    def round(self, *a, **k):
        return self

    def __round__(self, n=None):
        return self

    def rint(self):
        return self

    def conjugate(self):
        return self

    shape = ()
    ndim = 0
    size = 1
    dtype = _np.dtype(object)


numbers.Real.register(SymReal)


def lift(x):
    r = SymReal.lift(x)
    if r is NotImplemented:
        raise HarnessError(f"cannot lift {type(x)}")
    return r


def sym_sum(xs):
    t = SymReal.lift(0)
    for x in xs:
        t = t + x
    return t


def sym_prod(xs):
    t = SymReal.lift(1)
    for x in xs:
        t = t * x
    return t


# --------------------------------------------------------------------------------------------
# models


def model_values(model, names=None):
    """Rational (or 30-digit approximated algebraic) values of the context's symbols in a z3 model."""
    out = {}
    if isinstance(model, DictModel):
        out = {n: model.values.get(n, Fraction(0)) for n in (names if names is not None else CTX.names + CTX.pool[: CTX.pool_used])}
        if names is None:
            for n in CTX.bvars:
                out[n] = Fraction(1 if model.values.get(n) else 0)
        return out
    for n in (names if names is not None else CTX.names + CTX.pool[: CTX.pool_used]):
        v = model.eval(CTX.zvars[n], model_completion=True)
        out[n] = z3val_to_fraction(v)
    if names is None:
        for n, b in CTX.bvars.items():
            out[n] = Fraction(1 if z3.is_true(model.eval(b, model_completion=True)) else 0)
    return out


def z3val_to_fraction(v):
    if z3.is_rational_value(v):
        return Fraction(v.numerator_as_long(), v.denominator_as_long())
    if z3.is_algebraic_value(v):
        a = v.approx(30)
        return Fraction(a.numerator_as_long(), a.denominator_as_long())
    v2 = z3.simplify(v)
    if z3.is_rational_value(v2):
        return Fraction(v2.numerator_as_long(), v2.denominator_as_long())
    raise HarnessError(f"non-numeric model value {v}")


def eval_under(zexpr, values):
    """Evaluate a z3 Bool under a full rational assignment; returns True/False/None."""
    subs = [(CTX.zvars[n], RV(v)) if n in CTX.zvars else (CTX.bvars[n], z3.BoolVal(bool(v)))
            for n, v in values.items() if n in CTX.zvars or n in CTX.bvars]
    r = z3.simplify(z3.substitute(zexpr, *subs))
    if z3.is_true(r):
        return True
    if z3.is_false(r):
        return False
    return None


def evalf(x, values):
    """Exact Fraction value of a SymReal under an assignment (None if denominator vanishes)."""
    if not isinstance(x, SymReal):
        return x
    def ev(p):
        tot = Fraction(0)
        syms = [str(g) for g in p.ring.symbols]
        for mon, coeff in p.terms():
            t = Fraction(int(coeff.numerator), int(coeff.denominator))
            for s, e in zip(syms, mon):
                if e:
                    t *= Fraction(values[s]) ** e
            tot += t
        return tot
    d = ev(x.q.denom)
    if d == 0:
        return None
    return ev(x.q.numer) / d

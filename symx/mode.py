"""Value spaces: the same harness code runs symbolically (SymMode: values are SymReal, obligations go to z3
under the current path condition) and concretely (ConcreteMode: values are Fractions for the oracle and floats
for pgmpy on its default float64 backend, obligations are compared numerically).  ConcreteMode is what replays
counterexamples and cross-validates the symbolic engine against the real numerics."""
import math
from fractions import Fraction

import numpy as np
import z3

from . import core
from .core import SymBool, SymReal, RV, HarnessError


class PreconditionFailed(Exception):
    pass


class Failure:
    def __init__(self, label, key, detail, values=None, kind="obligation"):
        self.label, self.key, self.detail, self.values, self.kind = label, key, detail, values, kind

    def to_json(self):
        return dict(label=self.label, key=self.key, detail=self.detail, kind=self.kind,
                    values={k: str(v) for k, v in (self.values or {}).items()})


def _special(x):
    return isinstance(x, float) and (math.isnan(x) or math.isinf(x))


class BaseMode:
    def __init__(self):
        self.failures = []
        self.inconclusive = []
        self.n_obl = 0
        self.n_identity = 0
        self.n_solver = 0
        self.n_structural = 0
        self.key_prefix = ""
        self.samples = []
        self.canary = {}
        self._eq_log = []

    def end_of_path(self):
        pass

    def key(self, label, key):
        k = key if key is not None else f"{self.key_prefix}{label.split('[')[0]}"
        return k.replace(" ", "_")

    def check(self, cond, label, key=None, detail=""):
        """cond: bool or SymBool"""
        if isinstance(cond, SymBool):
            return self._check_sym(cond.e, label, key, detail)
        self.n_obl += 1
        self.n_structural += 1
        if not cond:
            self.failures.append(Failure(label, self.key(label, key), detail or "structural condition false",
                                         self._current_values(), kind="structural"))
            return False
        return True

    def fail(self, label, detail, key=None):
        self.n_obl += 1
        self.failures.append(Failure(label, self.key(label, key), detail, self._current_values(), kind="structural"))

    def _current_values(self):
        return None


class SymMode(BaseMode):
    symbolic = True

    def __init__(self, obligation_timeout_ms=20000):
        super().__init__()
        self.obligation_timeout_ms = obligation_timeout_ms
        self._declared = None

    # ---- symbols
    def declare(self, names, extra=0):
        names = list(names)
        if self._declared == (names, extra) and core.CTX is not None:
            # same scenario re-run along another prefix: keep generators/z3 constants/poly cache,
            # but reset per-run state (pool, UF applications, assumptions)
            ctx = core.CTX
            ctx.pool_used = 0
            ctx.uf_apps = {}
            ctx.base = []
            ctx.bvars = dict(ctx.bvars)
            ctx.assumptions = []
            ctx.known_pos = set()
            ctx.known_pos_polys = []
            ctx.pos_gens = set()
            ctx.nonneg_gens = set()
            ctx._possign_cache = {}
            return ctx
        self._declared = (names, extra)
        return core.set_ctx(names, extra)

    def sym(self, name, pos=False, nonneg=False, lo=None, hi=None):
        ctx = core.CTX
        s = ctx.sym(name, pos=pos or (lo is not None and lo > 0))
        z = ctx.zvars[name]
        if pos:
            ctx.base.append(z > 0)
            ctx.pos_gens.add(name)
        if nonneg:
            ctx.base.append(z >= 0)
            ctx.nonneg_gens.add(name)
        if lo is not None:
            ctx.base.append(z >= RV(Fraction(lo)))
            (ctx.pos_gens if lo > 0 else ctx.nonneg_gens).add(name) if lo >= 0 else None
        if hi is not None:
            ctx.base.append(z <= RV(Fraction(hi)))
        return s

    def fresh(self, pos=False, lo=None, hi=None, hi_strict=False):
        s, z = core.CTX.fresh(pos=pos)
        if pos:
            core.CTX.base.append(z > 0)
        if lo is not None:
            core.CTX.base.append(z >= RV(Fraction(lo)))
        if hi is not None:
            core.CTX.base.append(z < RV(Fraction(hi)) if hi_strict else z <= RV(Fraction(hi)))
        return s

    def const(self, x):
        return core.lift(Fraction(x))

    def bool(self, name):
        return SymBool(core.CTX.boolvar(name))

    def impl(self, x):
        return x

    def impl_table(self, rows):
        return [[self.impl(x) for x in r] for r in rows]

    def assume(self, cond, text):
        if isinstance(cond, SymBool):
            core.CTX.assume(cond.e, text)
        elif isinstance(cond, bool) or isinstance(cond, np.bool_):
            if not cond:
                raise PreconditionFailed(text)
        else:
            core.CTX.assume(cond, text)
        if core.ENG is not None:
            core.ENG.model = None

    def mark_pos(self, x):
        """Harness knows x > 0 under its assumptions (it must have assumed it)."""
        if isinstance(x, SymReal):
            core.register_pos(x)
        return x

    # ---- obligations
    def _values_from(self, model):
        return core.model_values(model)

    def _check_sym(self, claim, label, key, detail, robust=None):
        self.n_obl += 1
        self.n_solver += 1
        st, m = core.ENG.prove(claim, self.obligation_timeout_ms)
        if st == "proved":
            return True
        if st == "cex":
            if robust is not None:
                # prefer a counterexample that violates the claim by a margin (boundary models - exact ties - are
                # absorbed by the float tolerance of the concrete replay)
                r2, m2 = core.ENG._check([robust], 5000)
                if r2 == "sat":
                    m = m2
            self.failures.append(Failure(label, self.key(label, key), detail or "solver counterexample", self._values_from(m)))
            return False
        self.inconclusive.append((label, "solver unknown"))
        return None

    def _rel(self, a, b, op, label, key, detail):
        if _special(a) or _special(b):
            self.n_obl += 1
            self.n_structural += 1
            if isinstance(a, SymReal) or isinstance(b, SymReal):
                ok = False
            elif math.isnan(a) or math.isnan(b):
                ok = op == "eq" and math.isnan(a) and math.isnan(b)
            else:
                ok = {"eq": a == b, "le": a <= b, "lt": a < b}[op]
            if not ok:
                self.failures.append(Failure(label, self.key(label, key), detail or f"{a!r} vs {b!r}",
                                             self._values_from(core.ENG.witness())))
            return ok
        fa, fb = isinstance(a, (float, np.floating)), isinstance(b, (float, np.floating))
        a = core.lift(a)
        b = core.lift(b)
        if op == "eq" and (fa or fb) and a.is_const() and b.is_const():
            # a value computed by pgmpy entirely in Python floats (no symbol involved): compare numerically
            self.n_obl += 1
            self.n_structural += 1
            x, y = float(a.const()), float(b.const())
            ok = abs(x - y) <= 1e-9 * (1 + abs(y))
            if not ok:
                self.failures.append(Failure(label, self.key(label, key), detail or f"{x!r} vs {y!r}", self._values_from(core.ENG.witness())))
            return ok
        if op == "eq" and a.q == b.q:
            self.n_obl += 1
            self.n_identity += 1
            if len(self._eq_log) < 40 and not a.is_const():
                self._eq_log.append((a, b))
            return True
        if a.is_const() and b.is_const():
            self.n_obl += 1
            self.n_structural += 1
            ok = {"eq": a.const() == b.const(), "le": a.const() <= b.const(), "lt": a.const() < b.const()}[op]
            if not ok:
                self.failures.append(Failure(label, self.key(label, key), detail or f"{a} vs {b}",
                                             self._values_from(core.ENG.witness())))
            return ok
        claim = core.cmp_zero(a.q - b.q, op)
        if isinstance(claim, bool):
            self.n_obl += 1
            self.n_structural += 1
            if not claim:
                self.failures.append(Failure(label, self.key(label, key), detail or f"{op}: {str(a)[:100]} vs {str(b)[:100]}",
                                             self._values_from(core.ENG.witness())))
            return claim
        margin = core.lift(Fraction(1, 1000))
        if op == "eq":
            r1, r2 = core.cmp_zero((a - b - margin).q, "ge"), core.cmp_zero((b - a - margin).q, "ge")
            robust = z3.Or(*[x if not isinstance(x, bool) else z3.BoolVal(x) for x in (r1, r2)])
        else:
            r1 = core.cmp_zero((a - b - margin).q, "ge")
            robust = r1 if not isinstance(r1, bool) else z3.BoolVal(r1)
        ok = self._check_sym(claim, label, key, detail or f"{op}: got {str(a)[:200]} want {str(b)[:200]}", robust=robust)
        if ok and op == "eq" and len(self._eq_log) < 40:
            self._eq_log.append((a, b))
        return ok

    def end_of_path(self):
        """Vacuity canary: cross-wire two equality obligations that held on this path (value of the first against the oracle
        term of the second, the two oracle terms being different rational functions).  The cross-wired claim must be
        refutable; if it is proved although the two oracle terms are not equal under the path condition, the path's
        obligations are vacuous (contradictory assumptions / degenerate terms) and the run says so."""
        log, self._eq_log = self._eq_log, []
        if self.canary.get("checked", 0) >= 3 or core.ENG is None:
            return
        pair = None
        for i in range(len(log)):
            for j in range(len(log) - 1, i, -1):
                if log[i][1].q != log[j][1].q:
                    pair = (log[i], log[j])
                    break
            if pair:
                break
        if pair is None:
            return
        (a, b), (_, b2) = pair

        def bump(k):
            self.canary[k] = self.canary.get(k, 0) + 1
        bump("checked")
        claim = core.cmp_zero(a.q - b2.q, "eq")
        if isinstance(claim, bool):
            bump("refuted_as_expected" if not claim else "skipped")
            return
        try:
            # plain satisfiability query for a counterexample of the cross-wired claim (no witness search: models can be expensive on paths
            # with uninterpreted functions)
            r, _ = core.ENG._check([z3.Not(claim)], 2000)
            if r == "sat":
                bump("refuted_as_expected")
            elif r == "unknown":
                bump("unknown")
            else:
                c2 = core.cmp_zero(b.q - b2.q, "eq")
                r2 = "unsat" if c2 is True else ("sat" if c2 is False else core.ENG._check([z3.Not(c2)], 2000)[0])
                bump("skipped_equal_under_path_condition" if r2 == "unsat" else "proved_unexpectedly")
        except (HarnessError, z3.Z3Exception):
            bump("unknown")

    def eq(self, got, want, label, key=None, detail=""):
        return self._rel(got, want, "eq", label, key, detail)

    def le(self, a, b, label, key=None, detail=""):
        return self._rel(a, b, "le", label, key, detail)

    def lt(self, a, b, label, key=None, detail=""):
        return self._rel(a, b, "lt", label, key, detail)

    def tolerance_path(self):
        """True if some tolerance test on this path succeeded without exact equality"""
        return core.ENG is not None and core.ENG.tolerance_hits > 0

    def approx(self, got, want, rel, label, key=None, detail=""):
        """|got - want| <= rel * |want|   (banded obligation for tolerance paths)"""
        got, want = core.lift(got), core.lift(want)
        if got.q == want.q:
            self.n_obl += 1
            self.n_identity += 1
            return True
        d = abs(got - want)
        return self.le(d, abs(want) * Fraction(rel), label, key, detail or f"approx rel={rel}")

    def _current_values(self):
        if core.ENG is None or core.CTX is None:
            return None
        try:
            return core.model_values(core.ENG.witness())
        except HarnessError:
            return None


class ConcreteMode(BaseMode):
    symbolic = False
    RTOL = 1e-7
    ATOL = 1e-11

    def __init__(self, values):
        super().__init__()
        self.values = {k: Fraction(v) for k, v in values.items()}
        self._pool_i = 0

    def declare(self, names, extra=0):
        self._pool_i = 0
        return None

    def sym(self, name, pos=False, nonneg=False, lo=None, hi=None):
        if name not in self.values:
            raise PreconditionFailed(f"no value for {name}")
        v = self.values[name]
        if (pos and not v > 0) or (nonneg and not v >= 0) or (lo is not None and v < lo) or (hi is not None and v > hi):
            raise PreconditionFailed(f"{name}={v} outside its declared range")
        return v

    def fresh(self, pos=False, lo=None, hi=None, hi_strict=False):
        n = f"_p{self._pool_i}"
        self._pool_i += 1
        v = self.sym(n, pos=pos, lo=lo, hi=None if hi_strict else hi)
        if hi_strict and hi is not None and not v < hi:
            raise PreconditionFailed(f"{n}={v} outside range")
        return v

    def const(self, x):
        return Fraction(x)

    def bool(self, name):
        if name not in self.values:
            raise PreconditionFailed(f"no value for {name}")
        return bool(self.values[name])

    def impl(self, x):
        if isinstance(x, Fraction):
            return float(x)
        return x

    def impl_table(self, rows):
        return [[self.impl(x) for x in r] for r in rows]

    def assume(self, cond, text):
        if not cond:
            raise PreconditionFailed(text)

    def mark_pos(self, x):
        return x

    def _num(self, x):
        if isinstance(x, np.ndarray) and x.ndim == 0:
            x = x[()]
        return float(x)

    def _rel(self, a, b, op, label, key, detail):
        self.n_obl += 1
        a = self._num(a)
        b = self._num(b)
        if math.isnan(a) or math.isnan(b):
            ok = op == "eq" and math.isnan(a) and math.isnan(b)
        elif math.isinf(a) or math.isinf(b):
            ok = {"eq": a == b, "le": a <= b, "lt": a < b}[op]
        else:
            tol = self.ATOL + self.RTOL * max(abs(a), abs(b))
            ok = {"eq": abs(a - b) <= tol, "le": a <= b + tol, "lt": a < b + tol}[op]
        if not ok:
            self.failures.append(Failure(label, self.key(label, key), detail or f"{op}: got {a!r} want {b!r}", self.values,
                                         kind="concrete"))
        return ok

    def eq(self, got, want, label, key=None, detail=""):
        return self._rel(got, want, "eq", label, key, detail)

    def le(self, a, b, label, key=None, detail=""):
        return self._rel(a, b, "le", label, key, detail)

    def lt(self, a, b, label, key=None, detail=""):
        return self._rel(a, b, "lt", label, key, detail)

    def tolerance_path(self):
        return False

    def approx(self, got, want, rel, label, key=None, detail=""):
        self.n_obl += 1
        a, b = self._num(got), self._num(want)
        rel = float(Fraction(rel))
        ok = abs(a - b) <= rel * abs(b) + self.ATOL
        if not ok:
            self.failures.append(Failure(label, self.key(label, key), detail or f"approx: got {a!r} want {b!r}", self.values, kind="concrete"))
        return ok

    def _check_sym(self, claim, label, key, detail):
        raise HarnessError("SymBool in concrete mode")

    def _current_values(self):
        return self.values

"""HillClimbSearch over an arbitrary decomposable score function (symbolic local scores)."""
import sys, time, itertools; sys.path.insert(0,'/tmp/probe')
import z3, logging, pandas as pd, networkx as nx
import symreal as S
from symreal import SymBool, SymReal
logging.getLogger("pgmpy").setLevel(logging.ERROR)
from pgmpy import config; config.set_show_progress(False)
from pgmpy.estimators import HillClimbSearch, StructureScore
from pgmpy.base import DAG
n=int(sys.argv[1]); max_iter=int(sys.argv[2]); names=[f"v{i}" for i in range(n)]
data=pd.DataFrame([[0]*n,[1]*n],columns=names)
def lsym(v,ps): return z3.Real(f"s_{v}_"+"".join(sorted(ps)))
class SymScore(StructureScore):
    def local_score(self, variable, parents): return SymReal(lsym(variable, parents))
eps_val=z3.RealVal("1/10000")
def fn():
    est=HillClimbSearch(data, use_cache=False)
    out=est.estimate(scoring_method=SymScore(data), tabu_length=0, max_iter=max_iter, epsilon=1e-4, show_progress=False)
    return out
t0=time.time()
res=S.explore(fn, [])
print("paths",len(res),"time",round(time.time()-t0,1))
def total(g): return z3.Sum([lsym(v,list(g.predecessors(v))) for v in names])
bad=0;unk=0;t1=time.time();nq=0
for trace,pc,g in res:
    assert nx.is_directed_acyclic_graph(g)
    s=z3.Solver(); s.add(*pc)
    start=DAG(); start.add_nodes_from(names)
    neg=[total(g) < total(start)]
    # local optimality is required only when the loop ended by the epsilon test; we conservatively check when #edges-changing iterations < max_iter
    s.add(z3.Or(*neg)); nq+=1
    r=str(s.check())
    if r=='sat': bad+=1
    if r=='unknown': unk+=1
print("violating",bad,"unknown",unk,"verify time",round(time.time()-t1,1))

import numpy as np, pandas as pd, logging, itertools, warnings, math
warnings.filterwarnings("ignore")
logging.getLogger("pgmpy").setLevel(logging.CRITICAL)
from pgmpy import config; config.set_show_progress(False)
from pgmpy.factors.discrete import TabularCPD, DiscreteFactor
from pgmpy.models import BayesianNetwork, MarkovNetwork
from pgmpy.base import DAG
def t(name, f):
    try: print(f"[{name}]", f())
    except Exception as e: print(f"[{name}] EXC {type(e).__name__}: {str(e)[:200]}")
rs=np.random.RandomState(3)
def rc(v,card,ps,pcards,sn=None):
    k=int(np.prod(pcards)) if ps else 1; a=rs.rand(card,k); a/=a.sum(0); return TabularCPD(v,card,a,ps or None,pcards or None,state_names=sn or {})
# fit_update with non-sorted parents
def f5():
    m=BayesianNetwork([('Z','C'),('A','C')])
    cZ=rc('Z',2,[],[]); cA=rc('A',3,[],[]); cC=rc('C',2,['Z','A'],[2,3])
    m.add_cpds(cZ,cA,cC); old=cC.to_factor().copy()
    data=pd.DataFrame({'Z':[0,1,0,1,0,1],'A':[0,1,2,0,1,2],'C':[0,0,1,1,0,1]})
    n_prev=10**9   # huge prior weight -> CPD must stay (almost) the same
    m.fit_update(data,n_prev_samples=n_prev)
    new=m.get_cpds('C').to_factor()
    mx=max(abs(new.get_value(C=c,Z=z,A=a)-old.get_value(C=c,Z=z,A=a)) for c in range(2) for z in range(2) for a in range(3))
    return "max change with huge prior", mx
t("fit_update parent order", f5)
# BDeu with declared but unobserved child state
def f6():
    from pgmpy.estimators import BDeuScore
    from scipy.special import gammaln
    data=pd.DataFrame({'A':[0,1,0,1,1],'B':[0,0,1,1,1]})
    sn={'A':[0,1],'B':[0,1,2]}
    s=BDeuScore(data,equivalent_sample_size=4,state_names=sn).local_score('B',['A'])
    # closed form
    q=2;r=3;ess=4.0; a=ess/q;b=ess/(q*r)
    N={(0,0):1,(0,1):1,(1,0):1,(1,1):2}   # (a,b)
    tot=0
    for j in range(2):
        Nj=sum(N.get((j,k),0) for k in range(3)); tot+=gammaln(a)-gammaln(Nj+a)
        for k in range(3): tot+=gammaln(N.get((j,k),0)+b)-gammaln(b)
    return s, tot
t("BDeu unobserved declared state", f6)
def f6b():
    from pgmpy.estimators import K2Score, BicScore
    from scipy.special import gammaln
    data=pd.DataFrame({'A':[0,1,0,1,1],'B':[0,0,1,1,1]})
    sn={'A':[0,1,2],'B':[0,1]}   # parent state 2 never occurs
    s=BDeuScore=None
    from pgmpy.estimators import BDeuScore
    s=BDeuScore(data,equivalent_sample_size=4,state_names=sn).local_score('B',['A'])
    q=3;r=2;ess=4.0;a=ess/q;b=ess/(q*r)
    N={(0,0):1,(0,1):1,(1,0):1,(1,1):2}
    tot=0
    for j in range(3):
        Nj=sum(N.get((j,k),0) for k in range(2)); tot+=gammaln(a)-gammaln(Nj+a)
        for k in range(2): tot+=gammaln(N.get((j,k),0)+b)-gammaln(b)
    return s, tot
t("BDeu unobserved parent config", f6b)
# BIF names containing keywords
def f10():
    from pgmpy.readwrite import BIFWriter, BIFReader
    m=BayesianNetwork([('myvariable','probability_x')])
    m.add_cpds(rc('myvariable',2,[],[],{'myvariable':['s0','s1']}),rc('probability_x',2,['myvariable'],[2],{'probability_x':['t0','t1'],'myvariable':['s0','s1']}))
    txt=str(BIFWriter(m)); m2=BIFReader(string=txt).get_model(); return sorted(m2.nodes()), sorted(m2.edges())
t("BIF keyword names", f10)
# UAI round trip BN with 2 parents different cards
def f14():
    from pgmpy.readwrite import UAIWriter, UAIReader
    m=BayesianNetwork([('b','c'),('a','c')])
    m.add_cpds(rc('a',2,[],[]),rc('b',3,[],[]),rc('c',2,['b','a'],[3,2]))
    txt=UAIWriter(m).__str__(); r=UAIReader(string=txt); m2=r.get_model()
    return txt.split("\n")[:8], [ (c.variables, list(c.cardinality)) for c in m2.get_cpds()]
t("UAI roundtrip", f14)
def f13():
    d=DAG([('L','A'),('L','B'),('A','C')],latents={'L'})
    return d.minimal_dseparator('A','B'), d.is_dconnected('A','B'), 
t("minimal_dseparator latent", f13)

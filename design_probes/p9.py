import sys, time, itertools; sys.path.insert(0,'/tmp/probe')
import numpy as np, z3, logging
import symreal as S
from symreal import SymReal
logging.getLogger("pgmpy").setLevel(logging.ERROR)
import importlib; L=importlib.import_module("pgmpy.models.LinearGaussianBayesianNetwork")
from pgmpy.factors.continuous import LinearGaussianCPD

class LinalgProxy:
    def __getattr__(self,k): return getattr(np.linalg,k)
    def inv(self,a):
        a=np.asarray(a,dtype=object); n=a.shape[0]
        # Gauss-Jordan with symbolic pivots (forks on pivot == 0)
        M=[[a[i,j] for j in range(n)]+[SymReal(z3.RealVal(1 if i==j else 0)) for j in range(n)] for i in range(n)]
        for c in range(n):
            p=None
            for r in range(c,n):
                if not (M[r][c]==0): p=r;break
            if p is None: raise np.linalg.LinAlgError("Singular matrix")
            M[c],M[p]=M[p],M[c]
            pv=M[c][c]; M[c]=[x/pv for x in M[c]]
            for r in range(n):
                if r!=c:
                    f=M[r][c]; M[r]=[x-f*y for x,y in zip(M[r],M[c])]
        out=np.empty((n,n),dtype=object)
        for i in range(n):
            for j in range(n): out[i,j]=M[i][n+j]
        return out
class NP2:
    linalg=LinalgProxy()
    def __getattr__(self,k): return getattr(np,k)
    def zeros(self,shape,**k):
        a=np.empty(shape,dtype=object); a.fill(SymReal(z3.RealVal(0))); return a
    def eye(self,n):
        a=self.zeros((n,n))
        for i in range(n): a[i,i]=SymReal(z3.RealVal(1))
        return a
SymReal.__round__=lambda self,nd=None:self
SymReal.round=lambda self,decimals=0:self
S.ENG=S.Engine(); S.ENG.pending=[]
L.np=NP2()
m=L.LinearGaussianBayesianNetwork([('x1','x2'),('x2','x3'),('x1','x3')])
sy=lambda s:SymReal(z3.Real(s))
c1=LinearGaussianCPD('x1',[sy('a0')],sy('v1'))
c2=LinearGaussianCPD('x2',[sy('b0'),sy('b1')],sy('v2'),['x1'])
c3=LinearGaussianCPD('x3',[sy('c0'),sy('c1'),sy('c2')],sy('v3'),['x2','x1'])
m.add_cpds(c1,c2,c3)
try:
    mean,cov=m.to_joint_gaussian()
    print(mean); print(cov[2,2])
except Exception as e:
    import traceback; traceback.print_exc()

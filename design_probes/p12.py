import sys, time, itertools; sys.path.insert(0,'/tmp/probe')
import numpy as np, z3, logging
import symreal2 as S
from symreal2 import SymReal
logging.getLogger("pgmpy").setLevel(logging.ERROR)
from pgmpy import config
config.set_backend("numpy", dtype=object); config.set_show_progress(False)
config.get_compute_backend = lambda: S.NPProxy()
from pgmpy.factors.discrete import TabularCPD
from pgmpy.models import BayesianNetwork
S.ENG=S.Engine([]); S.ENG.pending=[]; S.ENG.unknowns=[]
TOK={}; REV={}
def tok(self):
    k=str(self.n)
    if k not in TOK:
        TOK[k]="0.%06d1"%(len(TOK)+1); REV[TOK[k]]=self
    return TOK[k]
SymReal.__str__=tok; SymReal.__repr__=tok
edges=[('rain','grass'),('sprinkler','grass')]
card={'rain':2,'sprinkler':3,'grass':2}; parents={'rain':[], 'sprinkler':[], 'grass':['sprinkler','rain']}
sn={'rain':['no','yes'],'sprinkler':['off','low','high'],'grass':['dry','wet']}
m=BayesianNetwork(edges); sym={}
for v in card:
    ncol=int(np.prod([card[p] for p in parents[v]])) if parents[v] else 1
    t=[[z3.Real(f"{v}_{i}_{j}") for j in range(ncol)] for i in range(card[v])]
    sym[v]=t
    m.add_cpds(TabularCPD(v,card[v],[[SymReal(x) for x in row] for row in t],evidence=parents[v] or None,evidence_card=[card[p] for p in parents[v]] or None,state_names={x:sn[x] for x in [v]+parents[v]}))
from pgmpy.readwrite import BIFWriter, BIFReader, XMLBIFWriter, XMLBIFReader, UAIWriter, UAIReader
txt=str(BIFWriter(m))
print(txt[-600:])
config.set_backend("numpy")   # reader side: plain floats
import pgmpy.global_vars
config.get_compute_backend = lambda: np
m2=BIFReader(string=txt).get_model()
bad=0
for v in card:
    c2=m2.get_cpds(v); f2=c2.to_factor()
    for st in itertools.product(*[range(card[x]) for x in [v]+parents[v]]):
        names={x:sn[x][i] for x,i in zip([v]+parents[v],st)}
        val=f2.get_value(**names)
        token="%.7f"%val
        col=0
        for p,i in zip(parents[v],st[1:]): col=col*card[p]+i
        want=sym[v][st[0]][col]
        got=REV.get(token)
        if got is None or not got.n.eq(want): bad+=1; print("MISMATCH",v,names,token,want)
print("mismatches",bad)

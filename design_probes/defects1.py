import numpy as np, pandas as pd, logging, itertools, warnings
warnings.filterwarnings("ignore")
logging.getLogger("pgmpy").setLevel(logging.CRITICAL)
from pgmpy import config; config.set_show_progress(False)
from pgmpy.factors.discrete import TabularCPD, DiscreteFactor
from pgmpy.models import BayesianNetwork, MarkovNetwork, DynamicBayesianNetwork
from pgmpy.base import DAG
def t(name, f):
    try: print(f"[{name}]", f())
    except Exception as e: print(f"[{name}] EXC {type(e).__name__}: {str(e)[:150]}")
# 1 reorder_parents loses state names
def f1():
    c=TabularCPD('g',2,[[.1,.2,.3,.4,.5,.6],[.9,.8,.7,.6,.5,.4]],['a','b'],[2,3],state_names={'g':['lo','hi'],'a':['x','y'],'b':['p','q','r']})
    c.reorder_parents(['b','a'],inplace=True); return c.state_names
t("reorder_parents inplace state_names", f1)
# 2 copy shares latents
def f2():
    m=BayesianNetwork([('a','b')],latents={'a'}); c=m.copy(); c.latents.add('zzz'); return m.latents
t("copy shares latents", f2)
# 3 hillclimb mutates start dag
def f3():
    from pgmpy.estimators import HillClimbSearch
    d=pd.DataFrame(np.random.RandomState(0).randint(0,2,(200,3)),columns=list('ABC')); d['C']=d['A']
    s=DAG(); s.add_nodes_from('ABC'); e0=list(s.edges())
    HillClimbSearch(d).estimate(scoring_method='k2',start_dag=s,show_progress=False); return e0, list(s.edges())
t("hillclimb mutates start_dag", f3)
# 7 factor graph clash / 8 VE on MN duplicates
def f8():
    from pgmpy.inference import VariableElimination
    m=MarkovNetwork([('A','B')]); f1=DiscreteFactor(['A','B'],[2,2],[1,2,3,4]); f2=DiscreteFactor(['A','B'],[2,2],[1,2,3,4]); m.add_factors(f1,f2)
    r=VariableElimination(m).query(['A'],show_progress=False,elimination_order='MinFill'); r2=VariableElimination(m).query(['A'],show_progress=False)
    return r.values, r2.values, "expected prop to", [1+16, 9+... if False else (1*1+2*2), (3*3+4*4)]
t("VE on MN duplicate factors", f8)
# 15 BP evidence by string state
def f15():
    from pgmpy.inference import BeliefPropagation, VariableElimination
    m=BayesianNetwork([('A','B'),('B','C')])
    sn={'A':['a0','a1'],'B':['b0','b1'],'C':['c0','c1']}
    m.add_cpds(TabularCPD('A',2,[[.3],[.7]],state_names={'A':sn['A']}),TabularCPD('B',2,[[.2,.6],[.8,.4]],['A'],[2],state_names={'B':sn['B'],'A':sn['A']}),TabularCPD('C',2,[[.1,.5],[.9,.5]],['B'],[2],state_names={'C':sn['C'],'B':sn['B']}))
    bp=BeliefPropagation(m); r=bp.query(['A'],evidence={'C':'c1'},show_progress=False); v=VariableElimination(m).query(['A'],evidence={'C':'c1'},show_progress=False)
    return r.values, v.values
t("BP string evidence", f15)
# 9 causal with evidence
def f9():
    from pgmpy.inference import CausalInference, VariableElimination
    m=BayesianNetwork([('Z','X'),('Z','Y'),('X','Y'),('X','M')])
    rs=np.random.RandomState(1)
    def rc(v,ps):
        k=2**len(ps); a=rs.rand(2,k); a/=a.sum(0); return TabularCPD(v,2,a,ps or None,[2]*len(ps) or None)
    m.add_cpds(rc('Z',[]),rc('X',['Z']),rc('Y',['Z','X']),rc('M',['X']))
    ci=CausalInference(m); r=ci.query(['Y'],do={'X':1},evidence={'M':0},show_progress=False)
    md=m.do(['X']); v=VariableElimination(md).query(['Y'],evidence={'X':1,'M':0},show_progress=False)
    return r.values, v.values
t("causal query with evidence", f9)
# 4 DBN card 3
def f4():
    from pgmpy.inference import DBNInference
    dbn=DynamicBayesianNetwork(); dbn.add_edges_from([(("Z",0),("X",0)),(("Z",0),("Z",1))])
    dbn.add_cpds(TabularCPD(("Z",0),3,[[.5],[.3],[.2]]),TabularCPD(("X",0),2,[[.9,.6,.2],[.1,.4,.8]],[("Z",0)],[3]),TabularCPD(("Z",1),3,[[.7,.2,.1],[.2,.6,.3],[.1,.2,.6]],[("Z",0)],[3]))
    dbn.initialize_initial_state(); inf=DBNInference(dbn); return inf.forward_inference([("X",1)])[("X",1)].values
t("DBN cardinality 3", f4)

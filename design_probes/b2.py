import itertools, logging, networkx as nx
logging.getLogger("pgmpy").setLevel(logging.ERROR)
from pgmpy import config; config.set_show_progress(False)
from pgmpy.base import DAG
from pgmpy.estimators import PC
bad=[]
nodes=['v0','v1','v2','v3']
pairs=[(a,b) for a in nodes for b in nodes if a<b]
cnt=0
for mask in itertools.product([0,1,2],repeat=6):
    edges=[(a,b) if m==1 else (b,a) for (a,b),m in zip(pairs,mask) if m]
    g=nx.DiGraph(edges); g.add_nodes_from(nodes)
    if not nx.is_directed_acyclic_graph(g): continue
    cnt+=1
    dag=DAG(edges); dag.add_nodes_from(nodes)
    ind=dag.get_independencies()
    est=PC(independencies=ind)
    # ensure all 4 variables are known
    est.variables=list(nodes)
    try:
        pdag=est.estimate(variant="stable",ci_test="independence_match",max_cond_vars=4,return_type="pdag",show_progress=False)
    except Exception as e:
        bad.append((edges,"EXC",repr(e)[:80])); continue
    d=nx.DiGraph(list(pdag.directed_edges))
    if not nx.is_directed_acyclic_graph(d) or any(not dag.has_edge(u,v) for u,v in pdag.directed_edges):
        bad.append((sorted(edges),sorted(pdag.directed_edges),sorted(pdag.undirected_edges)))
print("dags",cnt,"bad",len(bad))
for b in bad[:6]: print(b)

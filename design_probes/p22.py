"""Independencies.closure vs SMT least-closed-set oracle (semi-graphoid axioms) over a small universe."""
import itertools, z3, time, logging, sys
logging.getLogger("pgmpy").setLevel(logging.ERROR)
from pgmpy.independencies import Independencies, IndependenceAssertion
VARS=list("ABCD")[:int(sys.argv[1])]
def subsets(s):
    s=list(s)
    for r in range(len(s)+1):
        for c in itertools.combinations(s,r): yield frozenset(c)
# universe: (X,Y,Z) disjoint, X,Y nonempty, canonical up to symmetry
U=set()
for X in subsets(VARS):
    if not X: continue
    for Y in subsets(set(VARS)-X):
        if not Y: continue
        for Z in subsets(set(VARS)-X-Y):
            U.add((frozenset([X,Y]),Z))
U=sorted(U,key=str); idx={u:i for i,u in enumerate(U)}
def key(X,Y,Z): return (frozenset([frozenset(X),frozenset(Y)]),frozenset(Z))
d=[z3.Bool(f"d{i}") for i in range(len(U))]
rules=[]
for (XY,Z) in U:
    for X,Y in itertools.permutations(list(XY),2):
        if len(Y)>1:
            for W in subsets(Y):
                if W and W!=Y:
                    rules.append(z3.Implies(d[idx[key(X,Y,Z)]], d[idx[key(X,W,Z)]]))            # decomposition
                    rules.append(z3.Implies(d[idx[key(X,Y,Z)]], d[idx[key(X,Y-W,Z|W)]]))        # weak union
        # contraction: X ⟂ W | Y∪Z  &  X ⟂ Y | Z  =>  X ⟂ W∪Y | Z
        for W in subsets(set(VARS)-X-Y-Z):
            if W:
                rules.append(z3.Implies(z3.And(d[idx[key(X,W,Z|Y)]], d[idx[key(X,Y,Z)]]), d[idx[key(X,W|Y,Z)]]))
closed=z3.And(*rules)
print("vars",len(VARS),"universe",len(U),"rule instances",len(rules))
def to_key(a): return key(a.event1,a.event2,a.event3)
bad=0; n=0; t0=time.time()
cands=U if len(VARS)<4 else U[::3]
for combo in itertools.chain(itertools.combinations(cands,1), itertools.combinations(cands,2)):
    n+=1
    ind=Independencies(*[[sorted(list(XY)[0]),sorted(list(XY)[1]),sorted(Z)] for XY,Z in combo])
    D={to_key(a) for a in ind.closure().get_assertions()}
    I=set(combo)
    s=z3.Solver(); s.add(closed, *[d[idx[u]] for u in I])
    # (1) D closed and contains I
    s.push(); s.add(*[d[i] == z3.BoolVal(U[i] in D) for i in range(len(U))]); r1=str(s.check()); s.pop()
    # (2) minimal: no closed superset of I misses an element of D
    s.push(); s.add(z3.Or(*[z3.Not(d[idx[u]]) for u in D]) if D else z3.BoolVal(False)); r2=str(s.check()); s.pop()
    if r1!='sat' or r2!='unsat':
        bad+=1
        if bad<=5: print("MISMATCH input",[ (sorted(map(sorted,XY)),sorted(Z)) for XY,Z in combo],"closed&contains:",r1,"minimal(unsat expected):",r2)
print("inputs",n,"mismatches",bad,"time",round(time.time()-t0,1))

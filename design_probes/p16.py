"""PC estimate(return_type=pdag) with symbolic d-sep oracle: CPDAG obligations."""
import sys, time, itertools; sys.path.insert(0,'/tmp/probe')
import z3, logging
import symreal2 as S
from symreal2 import SymBool
logging.getLogger("pgmpy").setLevel(logging.ERROR)
from pgmpy import config; config.set_show_progress(False)
from pgmpy.estimators import PC
from pgmpy.independencies import Independencies
n=int(sys.argv[1]); V=list(range(n)); names=[f"v{i}" for i in V]
E={(i,j): z3.Bool(f"e_{i}_{j}") for i in V for j in V if i!=j}
base=[]; rk=[z3.Int(f"r{i}") for i in V]
for i in V: base += [rk[i]>=0, rk[i]<n]
for (i,j),e in E.items(): base.append(z3.Implies(e, rk[i]<rk[j]))
def anc_closure(seed):
    cur=list(seed)
    for _ in range(n-1):
        cur=[z3.Or(cur[i], *[z3.And(E[(i,j)], cur[j]) for j in V if j!=i]) for i in V]
    return cur
CACHE={}
def dsep(x,y,Z):
    key=(min(x,y),max(x,y),frozenset(Z))
    if key in CACHE: return CACHE[key]
    seed=[z3.BoolVal(i in (x,y) or i in Z) for i in V]
    A=anc_closure(seed)
    def und(i,j):
        direct=z3.Or(E[(i,j)],E[(j,i)])
        moral=z3.Or(*[z3.And(A[c],E[(i,c)],E[(j,c)]) for c in V if c not in (i,j)]) if n>2 else z3.BoolVal(False)
        return z3.And(A[i],A[j],z3.Or(direct,moral))
    reach=[z3.BoolVal(i==x) for i in V]
    for _ in range(n-1):
        reach=[z3.Or(reach[i], *[z3.And(reach[j], und(i,j)) for j in V if j!=i and j not in Z]) if i not in Z else z3.BoolVal(False) for i in V]
    CACHE[key]=z3.simplify(z3.Not(reach[y])); return CACHE[key]
def ci_test(u,v,Zs,**kw):
    return bool(SymBool(dsep(names.index(u),names.index(v),{names.index(z) for z in Zs})))
def fn():
    est=PC(independencies=Independencies()); est.variables=list(names)
    return est.estimate(variant=sys.argv[2], ci_test=ci_test, max_cond_vars=n, return_type="pdag", show_progress=False)
t0=time.time(); res,tot,unk=S.explore(fn, base); print("paths",len(res),tot,round(time.time()-t0,1))
t1=time.time(); bad=0; nq=0
for tr,pc,pdag in res:
    s=z3.Solver(); s.add(*base,*pc)
    dire=[(names.index(u),names.index(v)) for u,v in pdag.directed_edges]
    und=[(names.index(u),names.index(v)) for u,v in pdag.undirected_edges]
    adj=set(map(frozenset,dire))|set(map(frozenset,und))
    # skeleton + directed edges hold in every consistent DAG
    neg=[z3.Or(E[(i,j)],E[(j,i)]) != z3.BoolVal(frozenset((i,j)) in adj) for i,j in itertools.combinations(V,2)]
    neg+=[z3.Not(E[d]) for d in dire]
    s.push(); s.add(z3.Or(*neg)); nq+=1
    if str(s.check())!='unsat': bad+=1; print("UNSOUND",tr,dire,und)
    s.pop()
    for (i,j) in und:
        for e in (E[(i,j)],E[(j,i)]):
            s.push(); s.add(e); nq+=1
            if str(s.check())!='sat': bad+=1; print("NOT REVERSIBLE",(i,j),dire,und)
            s.pop()
print("obligation failures",bad,"queries",nq,"verify time",round(time.time()-t1,1))

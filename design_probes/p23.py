import sys, time, itertools; sys.path.insert(0,'/tmp/probe')
import numpy as np, z3, logging
import symreal3 as S
from symreal3 import SymReal
logging.getLogger("pgmpy").setLevel(logging.ERROR)
from pgmpy import config
config.set_backend("numpy", dtype=object); config.set_show_progress(False)
config.get_compute_backend = lambda: S.NPProxy()
from pgmpy.factors.discrete import TabularCPD
from pgmpy.models import BayesianNetwork
from pgmpy.inference import VariableElimination
edges=[('A','B'),('B','C')]; card={'A':2,'B':2,'C':2}; parents={'A':[],'B':['A'],'C':['B']}
names=[f"{v}_{j}" for v in card for j in range(2 if parents[v] else 1)]
ctx=S.set_ctx(names); base=[]; tabs={}
for v in card:
    ncol=2 if parents[v] else 1
    top=[ctx.sym(f"{v}_{j}") for j in range(ncol)]
    bot=[SymReal.lift(1)-t for t in top]
    tabs[v]=[top,bot]
    for x in top+bot: base.append(x.e>=0)
def joint(a,b,c): return tabs['A'][a][0]*tabs['B'][b][a]*tabs['C'][c][b]
pe=joint(0,1,0)+joint(0,1,1)+joint(1,1,0)+joint(1,1,1)
base.append(pe.e>0)
def fn():
    m=BayesianNetwork(edges)
    for v in card: m.add_cpds(TabularCPD(v,2,tabs[v],evidence=parents[v] or None,evidence_card=[2]*len(parents[v]) or None))
    try: return VariableElimination(m).query(['C'],evidence={'B':1},elimination_order=sys.argv[1],show_progress=False)
    except Exception as e: return e
res,tot,unk=S.explore(fn,base); print("paths",len(res),tot)
for tr,pc,r in res:
    if isinstance(r,Exception): print("  path raised",type(r).__name__,r); continue
    s=z3.Solver(); s.add(*base,*pc); neg=[]
    for c in range(2):
        num=joint(0,1,c)+joint(1,1,c); v=r.values[c]
        if isinstance(v,float): neg.append(z3.BoolVal(True)); continue
        d=(v*pe-num)
        neg.append(S.poly_to_z3(d.q.numer)!=0)
    s.add(z3.Or(*neg)); rr=s.check(); print("  verdict",rr, ("model "+str({str(k):s.model()[k] for k in s.model().decls()})) if str(rr)=='sat' else "")

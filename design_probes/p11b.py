import sys, time, itertools; sys.path.insert(0,'/tmp/probe')
import numpy as np, pandas as pd, z3, logging
import symreal2 as S
from symreal2 import SymReal
logging.getLogger("pgmpy").setLevel(logging.ERROR)
from pgmpy import config
config.set_backend("numpy", dtype=object); config.set_show_progress(False)
config.get_compute_backend = lambda: S.NPProxy()
from pgmpy.models import BayesianNetwork
from pgmpy.estimators import MaximumLikelihoodEstimator
import pgmpy.estimators.base as EB
SymReal.__hash__ = lambda self: hash(str(self.n))
_pp = EB.preprocess_data
def pp_stub(df):
    if "_weight" in df.columns:
        w = df["_weight"]; out, dt = _pp(df.drop(columns=["_weight"])); out["_weight"] = w.values; return out, dt
    return _pp(df)
EB.preprocess_data = pp_stub
edges=[('A','C'),('B','C')]
rows=list(itertools.product(range(2),range(2),range(2)))
W=[z3.Real(f"w{i}") for i in range(len(rows))]
base2=[W[0]>0]+[W[i]<W[i+1] for i in range(len(W)-1)]
LOG=[]
_dec=S.Engine.decide
def dec(self, expr):
    r=_dec(self, expr); LOG.append((len(self.trace), str(z3.simplify(expr))[:80], r)); return r
S.Engine.decide=dec
def fn2():
    LOG.append("RUN")
    df=pd.DataFrame(rows,columns=['A','B','C'])
    df['_weight']=pd.Series([SymReal(w) for w in W],dtype=object)
    m=BayesianNetwork(edges)
    est=MaximumLikelihoodEstimator(m,df)
    return est.estimate_cpd('C',weighted=True)
try:
    res,tot,unk=S.explore(fn2,base2); print("MLE paths",len(res),tot)
except AssertionError:
    runs=[]; 
    for x in LOG:
        if x=="RUN": runs.append([])
        else: runs[-1].append(x)
    print(len(runs)); 
    for r in runs[-2:]:
        print("----"); [print(x) for x in r]
tr,pc,cpd=res[0]
print(cpd.variables, cpd.state_names)
vals=cpd.values
# obligation: cpd[c | a,b] == w(a,b,c)/(w(a,b,0)+w(a,b,1))
idx={r:i for i,r in enumerate(rows)}
s=z3.Solver(); s.add(*base2,*pc); neg=[]
for a in range(2):
  for b in range(2):
    for c in range(2):
      v=vals[c,a,b]; den=W[idx[(a,b,0)]]+W[idx[(a,b,1)]]
      neg.append(v.n*den != W[idx[(a,b,c)]]*v.d)
s.add(z3.Or(*neg)); print("verdict", s.check())

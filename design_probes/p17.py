"""active_trail_nodes on a lazily symbolic DAG (accessor overrides), vs SMT d-sep oracle."""
import sys, time, itertools; sys.path.insert(0,'/tmp/probe')
import z3, logging
import symreal2 as S
from symreal2 import SymBool
logging.getLogger("pgmpy").setLevel(logging.ERROR)
from pgmpy.base import DAG
n=int(sys.argv[1]); V=list(range(n)); names=[f"v{i}" for i in V]; ix={v:i for i,v in enumerate(names)}
E={(i,j): z3.Bool(f"e_{i}_{j}") for i in V for j in V if i!=j}
base=[]
# canonical order: edges only i->j for i<j (every DAG is isomorphic to one of these)
for (i,j),e in E.items():
    if i>j: base.append(z3.Not(e))
O=[z3.Bool(f"o{i}") for i in V]
class LazyDAG(DAG):
    def predecessors(self, node):
        j=ix[node]; return iter([names[i] for i in V if i!=j and bool(SymBool(E[(i,j)]))])
    def successors(self, node):
        i=ix[node]; return iter([names[j] for j in V if j!=i and bool(SymBool(E[(i,j)]))])
def anc_closure(seed):
    cur=list(seed)
    for _ in range(n-1):
        cur=[z3.Or(cur[i], *[z3.And(E[(i,j)], cur[j]) for j in V if j!=i]) for i in V]
    return cur
def dconn(x):
    A=anc_closure(O); up=[z3.BoolVal(i==x) for i in V]; dn=[z3.BoolVal(False) for i in V]
    for _ in range(2*n):
        nup=[];ndn=[]
        for i in V:
            nup.append(z3.Or(up[i], *[z3.And(E[(i,c)], z3.Or(z3.And(up[c], z3.Not(O[c])), z3.And(dn[c], A[c]))) for c in V if c!=i]))
            ndn.append(z3.Or(dn[i], *[z3.And(E[(p,i)], z3.Not(O[p]), z3.Or(up[p], dn[p])) for p in V if p!=i]))
        up,dn=nup,ndn
    return [z3.And(z3.Not(O[y]), z3.Or(up[y],dn[y])) for y in V]
x=0
def fn():
    g=LazyDAG(); g.add_nodes_from(names)
    start=int(sys.argv[2]) if len(sys.argv)>2 else 0
    obs=[names[i] for i in V if i!=start and bool(SymBool(O[i]))]
    return start, g.active_trail_nodes(names[start], observed=obs)[names[start]]
tot_paths=0; t0=time.time(); bad=0
for start in V:
    sys.argv=[sys.argv[0],str(n),str(start)]
    res,tot,unk=S.explore(fn, base+[z3.Not(O[start])])
    tot_paths+=len(res)
    orc=dconn(start)
    for tr,pc,(st,act) in res:
        s=z3.Solver(); s.add(*base, z3.Not(O[start]), *pc)
        s.add(z3.Or(*[orc[y] != z3.BoolVal(names[y] in act) for y in V if y!=start]))
        if str(s.check())!='unsat': bad+=1
print("n",n,"paths",tot_paths,"bad",bad,"time",round(time.time()-t0,1), "(eager would be",(2**(n*(n-1)//2))*(2**(n-1))*n,"runs)")

"""StructureScore.local_score bodies over symbolic counts with uninterpreted lgamma/log."""
import sys, time, itertools, importlib; sys.path.insert(0,'/tmp/probe')
import numpy as np, pandas as pd, z3, logging
import symreal2 as S
from symreal2 import SymReal, SymBool
logging.getLogger("pgmpy").setLevel(logging.ERROR)
SS=importlib.import_module("pgmpy.estimators.StructureScore")
LG=z3.Function('lgam', z3.RealSort(), z3.RealSort()); LN=z3.Function('ln', z3.RealSort(), z3.RealSort())
def uf(f, x):
    x=SymReal.lift(x); return SymReal(f(z3.simplify(x.e)))
def arr_map(f, a, out=None, where=None):
    a=np.asarray(a, dtype=object)
    if a.ndim==0: return uf(f, a[()])
    res = out if out is not None else np.empty(a.shape, dtype=object)
    w = np.broadcast_to(np.asarray(where, dtype=object), a.shape) if where is not None else None
    for idx, v in np.ndenumerate(a):
        if w is None or bool(w[idx]): res[idx]=uf(f, v)
    return res
class NP3:
    def __getattr__(self,k): return getattr(np,k)
    def zeros_like(self,a,dtype=None):
        r=np.empty(np.shape(a),dtype=object); r.fill(SymReal(S.ZERO)); return r
    def sum(self,a,axis=None,dtype=None): return np.sum(np.asarray(a,dtype=object),axis=axis)
    def log(self,a,out=None,where=None): return arr_map(LN,a,out,where)
    def asarray(self,a,dtype=None): return np.asarray(a,dtype=object)
SS.np=NP3()
SS.gammaln=lambda a,out=None: arr_map(LG,a,out)
SS.lgamma=lambda x: uf(LG,x); SS.log=lambda x: uf(LN,x)
S.ENG=S.Engine([]); S.ENG.pending=[]; S.ENG.unknowns=[]
# symbolic counts for child C (2 states) with one binary parent A, both columns present
N=[[z3.Real(f"n{k}{j}") for j in range(2)] for k in range(2)]
base=[x>=1 for r in N for x in r]
S.ENG=S.Engine(base); S.ENG.pending=[]; S.ENG.unknowns=[]
data=pd.DataFrame({'A':[0,1,0,1],'C':[0,0,1,1]})
def stub_counts(self, variable, parents=[], weighted=False, reindex=True):
    cols=pd.MultiIndex.from_product([[0.0,1.0]],names=['A'])
    return pd.DataFrame([[SymReal(x) for x in r] for r in N], index=[0.0,1.0], columns=cols, dtype=object)
for cls in (SS.K2Score, SS.BicScore, SS.BDeuScore):
    sc=cls(data) if cls is not SS.BDeuScore else cls(data, equivalent_sample_size=10)
    cls.state_counts=stub_counts
    try:
        r=sc.local_score('C',['A'])
        print(cls.__name__, "->", str(z3.simplify(r.e))[:300].replace("\n"," "))
    except Exception as e:
        import traceback; traceback.print_exc()
# K2 oracle
r=SS.K2Score(data).local_score('C',['A'])
orc=z3.Sum([LG(N[k][j]+1) for k in range(2) for j in range(2)]) - z3.Sum([LG(N[0][j]+N[1][j]+2) for j in range(2)]) + 2*LG(z3.RealVal(2))
s=z3.Solver(); s.add(*base, r.e != orc); print("K2 verdict", s.check())

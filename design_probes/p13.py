import sys, time, itertools; sys.path.insert(0,'/tmp/probe')
from fractions import Fraction as F
import numpy as np, z3, logging
import symreal2 as S
from symreal2 import SymReal
logging.getLogger("pgmpy").setLevel(logging.ERROR)
from pgmpy import config
config.set_backend("numpy", dtype=object); config.set_show_progress(False)
config.get_compute_backend = lambda: S.NPProxy()
from pgmpy.factors.discrete import TabularCPD
from pgmpy.inference import DBNInference
from pgmpy.models import DynamicBayesianNetwork
SYM=sys.argv[1].split(',')
def tab(name, rows, cols, concrete):
    if name in SYM:
        t=[[z3.Real(f"{name}_{i}_{j}") for j in range(cols)] for i in range(rows-1)]
        t.append([1-z3.Sum([t[i][j] for i in range(rows-1)]) for j in range(cols)])
        for r in t:
            for x in r: base.append(x>0)
        return t
    return [[S.RV(F(x).limit_denominator(100)) for x in r] for r in concrete]
base=[]
Z0=tab('Z0',2,1,[[0.8],[0.2]]); X=tab('X',2,2,[[0.9,0.6],[0.1,0.4]]); Y=tab('Y',2,2,[[0.7,0.2],[0.3,0.8]]); ZT=tab('ZT',2,2,[[0.9,0.1],[0.1,0.9]])
sr=lambda t:[[SymReal(x) for x in r] for r in t]
def fn():
    dbn=DynamicBayesianNetwork()
    dbn.add_edges_from([(("Z",0),("X",0)),(("Z",0),("Y",0)),(("Z",0),("Z",1))])
    dbn.add_cpds(TabularCPD(("Z",0),2,sr(Z0)),TabularCPD(("Z",1),2,sr(ZT),[("Z",0)],[2]),TabularCPD(("X",0),2,sr(X),[("Z",0)],[2]),TabularCPD(("Y",0),2,sr(Y),[("Z",0)],[2]))
    dbn.initialize_initial_state()
    inf=DBNInference(dbn)
    return inf.forward_inference([("Z",1),("X",1)],{("Y",0):0,("Y",1):0})
t0=time.time(); res,tot,unk=S.explore(fn,base); print("paths",len(res),tot,"unk",len(unk),round(time.time()-t0,2))
# oracle: unrolled 2 slices: Z0,X0,Y0,Z1,X1,Y1
def joint(z0,y0,z1,x1,y1): return Z0[z0][0]*Y[y0][z0]*ZT[z1][z0]*X[x1][z1]*Y[y1][z1]
pe=z3.Sum([joint(z0,0,z1,x1,0) for z0 in range(2) for z1 in range(2) for x1 in range(2)])
for tr,pc,r in res:
    s=z3.Solver(); s.add(*base,*pc); neg=[]
    fz=r[("Z",1)]; fx=r[("X",1)]
    for k in range(2):
        numz=z3.Sum([joint(z0,0,k,x1,0) for z0 in range(2) for x1 in range(2)])
        numx=z3.Sum([joint(z0,0,z1,k,0) for z0 in range(2) for z1 in range(2)])
        for v,num in ((fz.values[k],numz),(fx.values[k],numx)):
            if S.is_zero_poly(v.n*pe-num*v.d): continue
            neg.append(v.n*pe != num*v.d)
    if not neg: print("identity"); continue
    s.add(z3.Or(*neg)); s.set('timeout',60000); t1=time.time(); print("verdict",s.check(),round(time.time()-t1,2))

import sys, time, itertools; sys.path.insert(0,'/tmp/probe')
import numpy as np, pandas as pd, z3, logging
import symreal2 as S
from symreal2 import SymReal
logging.getLogger("pgmpy").setLevel(logging.ERROR)
from pgmpy import config
config.set_backend("numpy", dtype=object); config.set_show_progress(False)
config.get_compute_backend = lambda: S.NPProxy()
from pgmpy.factors.discrete import TabularCPD
from pgmpy.models import BayesianNetwork
from pgmpy.inference import VariableElimination
from pgmpy.estimators import MaximumLikelihoodEstimator, BayesianEstimator
import pgmpy.estimators.base as EB
SymReal.__hash__ = lambda self: id(self)
_pp = EB.preprocess_data
def pp_stub(df):
    if "_weight" in df.columns:
        w = df["_weight"]; out, dt = _pp(df.drop(columns=["_weight"])); out["_weight"] = w.values; return out, dt
    return _pp(df)
EB.preprocess_data = pp_stub
# ---- MAP
edges=[('A','C'),('B','C')]; card={'A':2,'B':2,'C':3}; parents={'A':[], 'B':[], 'C':['A','B']}
base=[]; tabs={}
for v in card:
    ncol=int(np.prod([card[p] for p in parents[v]])) if parents[v] else 1
    t=[[z3.Real(f"{v}_{i}_{j}") for j in range(ncol)] for i in range(card[v]-1)]
    t.append([1 - z3.Sum([t[i][j] for i in range(card[v]-1)]) for j in range(ncol)])
    for j in range(ncol):
        for i in range(card[v]): base.append(t[i][j]>=0)
    tabs[v]=t
def je(a):
    e=z3.RealVal(1)
    for v in card:
        col=0
        for p in parents[v]: col=col*card[p]+a[p]
        e=e*tabs[v][a[v]][col]
    return e
names=list(card)
pe=z3.Sum([je(dict(zip(names,st))) for st in itertools.product(*[range(card[v]) for v in names]) if st[2]==1])
base.append(pe>0)
def fn():
    m=BayesianNetwork(edges)
    for v in card:
        m.add_cpds(TabularCPD(v,card[v],[[SymReal(x) for x in row] for row in tabs[v]],evidence=parents[v] or None,evidence_card=[card[p] for p in parents[v]] or None))
    return VariableElimination(m).map_query(['A','B'],evidence={'C':1},show_progress=False)
t0=time.time(); res,tot,unk=S.explore(fn,base); print("MAP paths",len(res),tot,"unk",len(unk),round(time.time()-t0,2))
bad=0
for tr,pc,r in res:
    s=z3.Solver(); s.add(*base,*pc)
    post=lambda a,b: je({'A':a,'B':b,'C':1})
    s.add(z3.Or(*[post(a,b) > post(r['A'],r['B']) for a in range(2) for b in range(2)]))
    if str(s.check())!='unsat': bad+=1
print("MAP violating paths",bad, [r for _,_,r in res])
# ---- weighted MLE
rows=list(itertools.product(range(2),range(2),range(3)))
W=[z3.Real(f"w{i}") for i in range(len(rows))]
base2=[w>=0 for w in W]
def fn2():
    df=pd.DataFrame(rows,columns=['A','B','C'])
    df['_weight']=pd.Series([SymReal(w) for w in W],dtype=object)
    m=BayesianNetwork(edges)
    est=MaximumLikelihoodEstimator(m,df)
    return est.estimate_cpd('C',weighted=True)
t0=time.time()
try:
    res,tot,unk=S.explore(fn2,base2); print("MLE paths",len(res),tot,"unk",len(unk),round(time.time()-t0,2))
    tr,pc,cpd=res[0]; print(cpd.variables, cpd.values[0,0,0])
except Exception as e:
    import traceback; traceback.print_exc()

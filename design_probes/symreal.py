"""Prototype: symbolic reals living in numpy object arrays + re-execution path forking."""
import z3, math, numbers

class Engine:
    def __init__(self):
        self.solver = z3.Solver()
        self.prefix = []      # forced decisions for this run
        self.trace = []       # decisions taken in this run: (bool, forced?)
        self.pc = []
        self.nqueries = 0
    def decide(self, expr):
        expr = z3.simplify(expr)
        if z3.is_true(expr): return True
        if z3.is_false(expr): return False
        i = len(self.trace)
        if i < len(self.prefix):
            d = self.prefix[i]
            self.trace.append(d)
            self.pc.append(expr if d else z3.Not(expr))
            return d
        # new decision: check feasibility of both
        self.nqueries += 2
        import time as _t, sys as _s, traceback as _tb; _t0=_t.time()
        self.solver.push(); self.solver.add(*self.pc, expr); t = self.solver.check(); self.solver.pop()
        self.solver.push(); self.solver.add(*self.pc, z3.Not(expr)); f = self.solver.check(); self.solver.pop()
        import sys as _s
        pass
        if str(t) == 'unknown' or str(f) == 'unknown':
            raise RuntimeError('unknown in decide')
        if str(t) == 'sat' and str(f) == 'sat':
            self.trace.append(True); self.pending.append(self.trace[:-1] + [False])
            self.pc.append(expr); return True
        if str(t) == 'sat':
            self.pc.append(expr); self.trace.append(True); return True
        self.pc.append(z3.Not(expr)); self.trace.append(False); return False

ENG = None

def explore(fn, base_constraints):
    """run fn() over all feasible paths; fn returns (list of z3 obligations that must be valid)"""
    global ENG
    pending = [[]]
    results = []
    while pending:
        pre = pending.pop()
        ENG = Engine(); ENG.pending = pending; ENG.prefix = pre; ENG.pc = list(base_constraints)
        out = fn()
        results.append((list(ENG.trace), list(ENG.pc), out))
    return results

class SymBool:
    def __init__(self, e): self.e = e
    def __bool__(self): return ENG.decide(self.e)
    def __and__(self, o): return SymBool(z3.And(self.e, _b(o)))
    def __or__(self, o): return SymBool(z3.Or(self.e, _b(o)))
    def __invert__(self): return SymBool(z3.Not(self.e))
def _b(o): return o.e if isinstance(o, SymBool) else z3.BoolVal(bool(o))

def _r(o):
    if isinstance(o, SymReal): return o.e
    if isinstance(o, bool): return z3.RealVal(int(o))
    if isinstance(o, numbers.Integral): return z3.RealVal(int(o))
    if isinstance(o, numbers.Rational): return z3.RealVal(o.numerator) / z3.RealVal(o.denominator)
    if isinstance(o, numbers.Real):
        f = float(o)
        if math.isnan(f) or math.isinf(f): raise ValueError('special')
        from fractions import Fraction
        fr = Fraction(f); return z3.RealVal(fr.numerator) / z3.RealVal(fr.denominator)
    return NotImplemented

class SymReal:
    def __init__(self, e): self.e = e
    def _bin(self, o, f):
        r = _r(o)
        if r is NotImplemented: return NotImplemented
        out = f(self.e, r)
        if z3.is_rational_value(self.e) and z3.is_rational_value(r): out = z3.simplify(out)
        return SymReal(out)
    def __add__(self, o): return self._bin(o, lambda a, b: a + b)
    __radd__ = __add__
    def __mul__(self, o): return self._bin(o, lambda a, b: a * b)
    __rmul__ = __mul__
    def __sub__(self, o): return self._bin(o, lambda a, b: a - b)
    def __rsub__(self, o): return self._bin(o, lambda a, b: b - a)
    def __neg__(self): return SymReal(-self.e)
    def __truediv__(self, o):
        r = _r(o)
        if r is NotImplemented: return NotImplemented
        if SymBool(r == 0):
            if SymBool(self.e == 0): return float('nan')
            return float('inf') if SymBool(self.e > 0) else float('-inf')
        out = self.e / r
        if z3.is_rational_value(self.e) and z3.is_rational_value(r): out = z3.simplify(out)
        return SymReal(out)
    def __rtruediv__(self, o):
        return SymReal(_r(o)).__truediv__(self)
    def __lt__(self, o): return SymBool(self.e < _r(o))
    def __le__(self, o): return SymBool(self.e <= _r(o))
    def __gt__(self, o): return SymBool(self.e > _r(o))
    def __ge__(self, o): return SymBool(self.e >= _r(o))
    def __eq__(self, o):
        r = _r(o)
        if r is NotImplemented: return NotImplemented
        return SymBool(self.e == r)
    def __ne__(self, o): return SymBool(self.e != _r(o))
    __hash__ = None
    def __repr__(self): return f"S({self.e})"

def __abs__(self): return SymReal(z3.If(self.e >= 0, self.e, -self.e))
SymReal.__abs__ = __abs__
import numpy as _np
class NPProxy:
    """numpy stand-in returned by config.get_compute_backend(): real numpy except value predicates on object arrays"""
    def __getattr__(self, k): return getattr(_np, k)
    def isnan(self, a):
        a = _np.asarray(a)
        if a.dtype != object: return _np.isnan(a)
        out = _np.zeros(a.shape, dtype=bool)
        for idx, v in _np.ndenumerate(a):
            out[idx] = isinstance(v, float) and math.isnan(v)
        return out
    def allclose(self, a, b, rtol=1e-05, atol=1e-08):
        a = _np.asarray(a, dtype=object); b = _np.asarray(b, dtype=object)
        a, b = _np.broadcast_arrays(a, b)
        conj = []
        for x, y in zip(a.ravel(), b.ravel()):
            x = _r(x); y = _r(y)
            from fractions import Fraction
            at = Fraction(atol); rt = Fraction(rtol)
            absy = z3.If(y >= 0, y, -y); d = z3.If(x - y >= 0, x - y, y - x)
            conj.append(d <= z3.RealVal(at.numerator)/at.denominator + (z3.RealVal(rt.numerator)/rt.denominator) * absy)
        return bool(SymBool(z3.And(*conj)))

# numpy-scalar duck typing (np.float64 0-d API that pgmpy touches)
def _arr0(self): 
    a = _np.empty((), dtype=object); a[()] = self; return a
SymReal.flatten = lambda self, *a, **k: _arr0(self).reshape(1)
SymReal.ravel = SymReal.flatten
SymReal.reshape = lambda self, *shape: _arr0(self).reshape(*shape)
SymReal.shape = (); SymReal.ndim = 0; SymReal.size = 1
SymReal.sum = lambda self, *a, **k: self
SymReal.max = lambda self, *a, **k: self
SymReal.copy = lambda self: self
SymReal.item = lambda self: self

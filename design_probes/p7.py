"""PC with a symbolic d-separation oracle over an unknown DAG (n nodes)."""
import sys, time, itertools; sys.path.insert(0,'/tmp/probe')
import z3, logging
import symreal as S
from symreal import SymBool
logging.getLogger("pgmpy").setLevel(logging.ERROR)
from pgmpy import config; config.set_show_progress(False)
from pgmpy.estimators import PC
from pgmpy.independencies import Independencies

n=int(sys.argv[1]); V=list(range(n)); names=[f"v{i}" for i in V]
E={(i,j): z3.Bool(f"e_{i}_{j}") for i in V for j in V if i!=j}
base=[]
# acyclic: topological rank
rk=[z3.Int(f"r{i}") for i in V]
for i in V: base += [rk[i]>=0, rk[i]<n]
for (i,j),e in E.items(): base.append(z3.Implies(e, rk[i]<rk[j]))
def anc_closure(seed):  # seed: list of Bool per node -> ancestors-or-self
    cur=list(seed)
    for _ in range(n-1):
        cur=[z3.Or(cur[i], *[z3.And(E[(i,j)], cur[j]) for j in V if j!=i]) for i in V]
    return cur
def dsep(x,y,Z):
    """moralised ancestral graph criterion, Z concrete set of ints"""
    seed=[z3.BoolVal(i in (x,y) or i in Z) for i in V]
    A=anc_closure(seed)
    def und(i,j):
        direct=z3.Or(E[(i,j)],E[(j,i)])
        moral=z3.Or(*[z3.And(A[c],E[(i,c)],E[(j,c)]) for c in V if c not in (i,j)]) if n>2 else z3.BoolVal(False)
        return z3.And(A[i],A[j],z3.Or(direct,moral))
    reach=[z3.BoolVal(i==x) for i in V]
    for _ in range(n-1):
        reach=[z3.Or(reach[i], *[z3.And(reach[j], und(i,j)) for j in V if j!=i and j not in Z]) if i not in Z else z3.BoolVal(False) for i in V]
    return z3.Not(reach[y])
ncalls=[0]
def ci_test(u,v,Zs,**kw):
    ncalls[0]+=1
    return bool(SymBool(dsep(names.index(u),names.index(v),{names.index(z) for z in Zs})))
def fn():
    est=PC(independencies=Independencies()); est.variables=list(names)
    skel,seps=est.build_skeleton(ci_test=ci_test,max_cond_vars=n,variant=sys.argv[2] if len(sys.argv)>2 else 'stable',show_progress=False)
    return skel,seps
t0=time.time()
res=S.explore(fn, base)
print("paths",len(res),"time",round(time.time()-t0,1),"ci calls",ncalls[0])
# obligation per path: skeleton equals adjacency of every consistent DAG
bad=0; t1=time.time()
for trace,pc,(skel,seps) in res:
    s=z3.Solver(); s.add(*pc)
    neg=[]
    for i,j in itertools.combinations(V,2):
        adj=z3.Or(E[(i,j)],E[(j,i)])
        neg.append(adj != z3.BoolVal(skel.has_edge(names[i],names[j])))
    s.add(z3.Or(*neg))
    r=s.check()
    if str(r)!='unsat': bad+=1
print("violating paths",bad,"verify time",round(time.time()-t1,1))

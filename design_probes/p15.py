"""hash model for DiscreteFactor.__hash__ (compat_fns.tobytes) + duplicate factors in to_junction_tree"""
import sys, time, itertools; sys.path.insert(0,'/tmp/probe')
import numpy as np, z3, logging
import symreal2 as S
from symreal2 import SymReal, SymBool
logging.getLogger("pgmpy").setLevel(logging.ERROR)
from pgmpy import config
config.set_backend("numpy", dtype=object); config.set_show_progress(False)
config.get_compute_backend = lambda: S.NPProxy()
from pgmpy.utils import compat_fns
from pgmpy.factors.discrete import DiscreteFactor
from pgmpy.factors import factor_product
from pgmpy.models import MarkovNetwork
_tb = compat_fns.tobytes
REG = []
def tobytes(arr):
    if isinstance(arr, np.ndarray) and arr.dtype == object:
        flat = [SymReal.lift(x) for x in arr.ravel()]
        for k, (shape, rep) in enumerate(REG):
            if shape == arr.shape:
                conj = [a.e == b.e for a, b in zip(flat, rep) if not S.is_zero_poly(a.n*b.d - b.n*a.d)]
                if not conj or bool(SymBool(z3.And(*conj))): return b"class%d" % k
        REG.append((arr.shape, flat)); return b"class%d" % (len(REG)-1)
    return _tb(arr)
compat_fns.tobytes = tobytes
A=[z3.Real(f"a{i}") for i in range(4)]; B=[z3.Real(f"b{i}") for i in range(4)]; C=[z3.Real(f"c{i}") for i in range(4)]
base=[x>0 for x in A+B+C]
def fn():
    REG.clear()
    m=MarkovNetwork([('A','B'),('B','C')])
    f1=DiscreteFactor(['A','B'],[2,2],[SymReal(x) for x in A]); f2=DiscreteFactor(['A','B'],[2,2],[SymReal(x) for x in B]); f3=DiscreteFactor(['B','C'],[2,2],[SymReal(x) for x in C])
    m.add_factors(f1,f2,f3)
    jt=m.to_junction_tree()
    return factor_product(*jt.get_factors())
t0=time.time(); res,tot,unk=S.explore(fn,base); print("paths",len(res),tot,round(time.time()-t0,2))
for tr,pc,phi in res:
    s=z3.Solver(); s.add(*base,*pc); neg=[]
    for a,b,c in itertools.product(range(2),repeat=3):
        want=A[2*a+b]*B[2*a+b]*C[2*b+c]
        got=phi.get_value(A=a,B=b,C=c)
        neg.append(got.n != want*got.d)
    s.add(z3.Or(*neg)); r=s.check(); print("path",tr,"verdict",r)
    if str(r)=='sat':
        mdl=s.model(); print({str(d):mdl[d] for d in mdl.decls()})

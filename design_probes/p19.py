"""forward_sample / likelihood_weighted_sample with a symbolic RNG (inverse-CDF over fresh uniforms)."""
import sys, time, itertools, importlib; sys.path.insert(0,'/tmp/probe')
from fractions import Fraction as F
import numpy as np, pandas as pd, z3, logging
import symreal2 as S
from symreal2 import SymReal, SymBool
logging.getLogger("pgmpy").setLevel(logging.ERROR)
from pgmpy import config; config.set_show_progress(False)
from pgmpy.factors.discrete import TabularCPD
from pgmpy.models import BayesianNetwork
from pgmpy.sampling import BayesianModelSampling
ME=importlib.import_module("pgmpy.utils.mathext")
UCNT=[0]; BOX=[]
class RandomProxy:
    def __getattr__(self,k): return getattr(np.random,k)
    def seed(self,*a): pass
    def choice(self, a, size=None, p=None, replace=True):
        a=np.asarray(a); k=int(size) if size is not None else 1
        cdf=[]; acc=F(0)
        for w in p: acc+=F(float(w)); cdf.append(acc)
        out=[]
        for _ in range(k):
            u=z3.Real(f"u{UCNT[0]}"); UCNT[0]+=1
            S.ENG.pc += [u>=0, u<1]; S.ENG.model=None
            lo=F(0); pick=None
            for i,c in enumerate(cdf):
                if i==len(cdf)-1 or bool(SymBool(u < S.RV(c))): pick=i; BOX.append((lo, c if i<len(cdf)-1 else F(1))); break
                lo=c
            out.append(a[pick])
        return np.array(out) if size is not None else out[0]
class NP4:
    random=RandomProxy()
    def __getattr__(self,k): return getattr(np,k)
ME.np=NP4()
import pgmpy.sampling.Sampling as SM
SM.np=NP4()
m=BayesianNetwork([('A','C'),('B','C')])
cA=TabularCPD('A',2,[[0.25],[0.75]],state_names={'A':['a0','a1']}); cB=TabularCPD('B',2,[[0.5],[0.5]]); 
cC=TabularCPD('C',3,[[0.5,0.25,0.0,1.0],[0.5,0.25,0.5,0.0],[0.0,0.5,0.5,0.0]],['A','B'],[2,2],state_names={'C':['x','y','z'],'A':['a0','a1'],'B':[0,1]})
m.add_cpds(cA,cB,cC)
def fn():
    UCNT[0]=0; BOX.clear()
    df=BayesianModelSampling(m).forward_sample(size=1, show_progress=False)
    vol=F(1)
    for lo,hi in BOX: vol*=(hi-lo)
    return tuple(df.iloc[0][['A','B','C']]), vol
t0=time.time(); res,tot,unk=S.explore(fn,[]); print("paths",len(res),tot,round(time.time()-t0,2))
from collections import defaultdict
law=defaultdict(F)
for tr,pc,(row,vol) in res: law[row]+=vol
for k,v in sorted(law.items(), key=str): print(k, v)
print("total", sum(law.values()))

import sys, time, itertools; sys.path.insert(0,'/tmp/probe')
import numpy as np, z3, logging
import symreal3 as S
from symreal3 import SymReal
logging.getLogger("pgmpy").setLevel(logging.ERROR)
from pgmpy import config
config.set_backend("numpy", dtype=object); config.set_show_progress(False)
config.get_compute_backend = lambda: S.NPProxy()
from pgmpy.factors.discrete import DiscreteFactor
ctx=S.set_ctx([f"v{i}" for i in range(8)])
vals=[ctx.sym(f"v{i}") for i in range(8)]
S.ENG=S.Engine([]); S.ENG.pending=[]; S.ENG.unknowns=[]
f=DiscreteFactor(['x','y','z'],[2,2,2],vals)
m=f.marginalize(['y'],inplace=False)
bad=0
for x in range(2):
    for z in range(2):
        want=vals[4*x+z]+vals[4*x+2+z]; got=m.get_value(x=x,z=z)
        s=z3.Solver(); s.add(S.poly_to_z3((got-want).q.numer)!=0)
        if str(s.check())=='sat': bad+=1; print("sat at x,z",x,z, s.model())
print("violations",bad)

from typing import List
import numpy as np
from pgmpy.factors.discrete import DiscreteFactor

def marg_sum(vals: List[float]) -> bool:
    """
    pre: len(vals) == 4
    pre: all(0.0 <= v <= 1.0 for v in vals)
    post: _
    """
    f = DiscreteFactor(['a', 'b'], [2, 2], vals)
    m = f.marginalize(['a'], inplace=False)
    return abs(float(m.values[0]) - (vals[0] + vals[2])) < 1e-9

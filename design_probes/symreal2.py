"""Prototype v2: SymReal = num/den (z3 polynomial terms), witness-guided decisions, identity shortcut."""
import z3, math, numbers, time, sys
from fractions import Fraction
import numpy as _np

def RV(x):
    fr = Fraction(x); return z3.RealVal(str(fr.numerator)) if fr.denominator == 1 else z3.Q(fr.numerator, fr.denominator)
ONE = z3.RealVal(1); ZERO = z3.RealVal(0)

class Engine:
    def __init__(self, base, witness_seed=0):
        self.base = list(base); self.pc = []; self.trace = []; self.prefix = []
        self.stats = dict(decides=0, solver_calls=0, solver_time=0.0, shortcut=0, unknown=0)
        self.solver = z3.Solver(); self.solver.add(*self.base)
        self.model = None
    def witness(self):
        if self.model is None:
            s = z3.Solver(); s.add(*self.base, *self.pc)
            assert str(s.check()) == 'sat'; self.model = s.model()
        return self.model
    def decide(self, expr):
        expr = z3.simplify(expr)
        if z3.is_true(expr): return True
        if z3.is_false(expr): return False
        self.stats['decides'] += 1
        i = len(self.trace)
        if i < len(self.prefix):
            d = self.prefix[i]; self.trace.append(d); self.pc.append(expr if d else z3.Not(expr)); self.model = None
            return d
        m = self.witness()
        ev = m.eval(expr, model_completion=True)
        if not (z3.is_true(ev) or z3.is_false(ev)):
            # witness cannot evaluate (e.g. division by zero is unspecified in z3): ask the solver for both sides
            self.solver.push(); self.solver.add(*self.pc, expr); rt = str(self.solver.check()); self.solver.pop()
            ev = z3.BoolVal(rt == 'sat'); self.model = None
        w = z3.is_true(ev)
        other = z3.Not(expr) if w else expr
        t0 = time.time()
        self.solver.push(); self.solver.add(*self.pc, other); self.solver.set('timeout', 5000)
        r = str(self.solver.check()); self.solver.pop()
        self.stats['solver_calls'] += 1; self.stats['solver_time'] += time.time() - t0
        if r == 'unknown': self.stats['unknown'] += 1; self.unknowns.append((list(self.pc), other))
        if r == 'sat': self.pending.append(self.trace + [not w])
        self.trace.append(w); self.pc.append(expr if w else z3.Not(expr))
        if self.model is None: pass
        return w
ENG = None
def explore(fn, base):
    global ENG
    pending = [[]]; results = []; unknowns = []
    tot = dict()
    while pending:
        pre = pending.pop()
        ENG = Engine(base); ENG.pending = pending; ENG.prefix = pre; ENG.unknowns = unknowns
        out = fn()
        for k, v in ENG.stats.items(): tot[k] = tot.get(k, 0) + v
        results.append((list(ENG.trace), list(ENG.pc), out))
    return results, tot, unknowns

class SymBool:
    def __init__(self, e): self.e = e
    def __bool__(self): return ENG.decide(self.e)

def is_zero_poly(p):
    s = z3.simplify(p, som=True, som_blowup=10000000)
    return z3.is_rational_value(s) and s.numerator_as_long() == 0

class SymReal:
    __slots__ = ('n', 'd')
    __hash__ = None
    def __init__(self, n, d=ONE): self.n = n; self.d = d
    def __bool__(self): return bool(SymBool(self.n != 0))
    @property
    def e(self): return self.n if self.d.eq(ONE) else self.n / self.d
    @staticmethod
    def lift(o):
        if isinstance(o, SymReal): return o
        if isinstance(o, bool): return SymReal(RV(int(o)))
        if isinstance(o, numbers.Integral): return SymReal(RV(int(o)))
        if isinstance(o, numbers.Rational): return SymReal(RV(Fraction(o)))
        if isinstance(o, numbers.Real):
            f = float(o)
            if math.isnan(f) or math.isinf(f): return None
            return SymReal(RV(Fraction(f)))
        return NotImplemented
    def _s(self, n, d):
        if z3.is_rational_value(n) or True: n = z3.simplify(n)
        return SymReal(n, d)
    def __add__(self, o):
        o = SymReal.lift(o)
        if o is NotImplemented: return o
        if self.d.eq(o.d): return self._s(self.n + o.n, self.d)
        return self._s(self.n * o.d + o.n * self.d, z3.simplify(self.d * o.d))
    __radd__ = __add__
    def __neg__(self): return SymReal(-self.n, self.d)
    def __sub__(self, o):
        o = SymReal.lift(o)
        if o is NotImplemented: return o
        return self + (-o)
    def __rsub__(self, o): return (-self) + o
    def __mul__(self, o):
        o = SymReal.lift(o)
        if o is NotImplemented: return o
        return self._s(self.n * o.n, z3.simplify(self.d * o.d))
    __rmul__ = __mul__
    def __truediv__(self, o):
        o = SymReal.lift(o)
        if o is NotImplemented: return o
        if is_zero_poly(o.n) or bool(SymBool(o.n == 0)):
            if is_zero_poly(self.n) or bool(SymBool(self.n == 0)): return float('nan')
            return float('inf') if bool(SymBool(self.e > 0)) else float('-inf')
        if o.n.eq(self.n) and o.d.eq(self.d): return SymReal(ONE)
        return self._s(self.n * o.d, z3.simplify(self.d * o.n))
    def __rtruediv__(self, o): return SymReal.lift(o) / self
    def _cmp(self, o, f):
        o = SymReal.lift(o); return SymBool(f(self.e, o.e))
    def __lt__(self, o): return self._cmp(o, lambda a, b: a < b)
    def __le__(self, o): return self._cmp(o, lambda a, b: a <= b)
    def __gt__(self, o): return self._cmp(o, lambda a, b: a > b)
    def __ge__(self, o): return self._cmp(o, lambda a, b: a >= b)
    def __eq__(self, o):
        o = SymReal.lift(o)
        if o is NotImplemented or o is None: return False
        if is_zero_poly(self.n * o.d - o.n * self.d): return True
        return SymBool(self.e == o.e)
    def __ne__(self, o):
        r = self.__eq__(o)
        return (not r) if isinstance(r, bool) else SymBool(z3.Not(r.e))
    def __abs__(self): return SymReal(z3.If(self.e >= 0, self.e, -self.e))
    def __repr__(self): return f"S({self.e})"
def _arr0(self):
    a = _np.empty((), dtype=object); a[()] = self; return a
SymReal.flatten = lambda self, *a, **k: _arr0(self).reshape(1)
SymReal.ravel = SymReal.flatten
SymReal.reshape = lambda self, *shape: _arr0(self).reshape(*shape)
SymReal.sum = lambda self, *a, **k: self
SymReal.max = lambda self, *a, **k: self
SymReal.copy = lambda self: self

class NPProxy:
    def __getattr__(self, k): return getattr(_np, k)
    def isnan(self, a):
        a = _np.asarray(a)
        if a.dtype != object: return _np.isnan(a)
        out = _np.zeros(a.shape, dtype=bool)
        for idx, v in _np.ndenumerate(a): out[idx] = isinstance(v, float) and math.isnan(v)
        return out
    def allclose(self, a, b, rtol=1e-05, atol=1e-08):
        a = _np.asarray(a, dtype=object); b = _np.asarray(b, dtype=object)
        a, b = _np.broadcast_arrays(a, b)
        conj = []
        for x, y in zip(a.ravel(), b.ravel()):
            x = SymReal.lift(x); y = SymReal.lift(y)
            if is_zero_poly(x.n * y.d - y.n * x.d): continue      # identical rational functions
            absy = z3.If(y.e >= 0, y.e, -y.e); d = z3.If(x.e - y.e >= 0, x.e - y.e, y.e - x.e)
            conj.append(d <= RV(Fraction(atol)) + RV(Fraction(rtol)) * absy)
        if not conj: return True
        return bool(SymBool(z3.And(*conj)))

import builtins as _bi
def sym_isinstance(obj, types):
    """module-level `isinstance` for pgmpy modules with scalar branches: a SymReal is a float there
    (on the float backend those scalars are np.float64, a float subclass)"""
    if type(obj) is SymReal:
        ts = types if isinstance(types, tuple) else (types,)
        if float in ts: return True
    return _bi.isinstance(obj, types)

import sys, time, itertools; sys.path.insert(0,'/tmp/probe')
from fractions import Fraction as F
import numpy as np, z3
import symreal2 as S
from symreal2 import SymReal
from pgmpy import config
config.set_backend("numpy", dtype=object)
config.set_show_progress(False)
config.get_compute_backend = lambda: S.NPProxy()
from pgmpy.factors.discrete import DiscreteFactor, TabularCPD
from pgmpy.models import BayesianNetwork
from pgmpy.inference import VariableElimination, BeliefPropagation
import logging; logging.getLogger("pgmpy").setLevel(logging.ERROR)

edges=[('A','C'),('B','C'),('C','D')]
card={'A':2,'B':2,'C':2,'D':2}
parents={'A':[], 'B':[], 'C':['A','B'], 'D':['C']}
SYM=sys.argv[1].split(',')
base=[]; tabs={}; ztabs={}
import random; rnd=random.Random(1)
for v in card:
    ncol=int(np.prod([card[p] for p in parents[v]])) if parents[v] else 1
    if v in SYM:
        t=[[z3.Real(f"{v}_{i}_{j}") for j in range(ncol)] for i in range(card[v]-1)]
        t.append([1 - z3.Sum([t[i][j] for i in range(card[v]-1)]) for j in range(ncol)])
        for j in range(ncol):
            for i in range(card[v]): base.append(t[i][j]>0)
        tabs[v]=[[SymReal(x) for x in row] for row in t]; ztabs[v]=t
    else:
        cols=[]
        for j in range(ncol):
            w=[rnd.randint(1,9) for _ in range(card[v])]; s=sum(w); cols.append([F(x,s) for x in w])
        t=[[cols[j][i] for j in range(ncol)] for i in range(card[v])]
        ztabs[v]=[[z3.simplify(z3.RealVal(x.numerator)/z3.RealVal(x.denominator)) for x in row] for row in t]; tabs[v]=[[SymReal(x) for x in row] for row in ztabs[v]]
names=list(card)
def joint_entry(assign):
    e=z3.RealVal(1)
    for v in card:
        col=0
        for p in parents[v]: col=col*card[p]+assign[p]
        e=e*ztabs[v][assign[v]][col]
    return e
def run(query, evidence):
    def fn():
        m=BayesianNetwork(edges)
        for v in card:
            m.add_cpds(TabularCPD(v,card[v],tabs[v],
                      evidence=parents[v] or None, evidence_card=[card[p] for p in parents[v]] or None))
        bp=BeliefPropagation(m)
        r=bp.query(query, evidence=evidence, show_progress=False)
        return r
    return fn
query=['A']; evidence={'D':1}
pe=z3.Sum([joint_entry(dict(zip(card, st))) for st in itertools.product(*[range(card[v]) for v in card]) if st[3]==1])
base.append(pe>0)
t0=time.time()
res,tot,unk=S.explore(run(query,evidence), base); print(tot, "unknown-branches", len(unk))
print("paths", len(res), "explore time", round(time.time()-t0,2))
for trace,pc,r in res[:5]:
    s=z3.Solver(); s.add(*pc)
    neg=[]
    for qa in itertools.product(*[range(card[q]) for q in r.variables]):
        num=z3.Sum([joint_entry(dict(zip(card, st))) for st in itertools.product(*[range(card[v]) for v in card])
                    if st[3]==1 and all(st[names.index(q)]==qa[i] for i,q in enumerate(r.variables))])
        val=r.values[qa]
        if S.is_zero_poly(val.n*pe - num*val.d): continue
        neg.append(val.n*pe != num*val.d)
    t1=time.time()
    if not neg: print("  verdict: identity (syntactic)", round(time.time()-t1,2)); continue
    s.add(z3.Or(*neg)); s.set('timeout',60000)
    print("  verdict", s.check(), round(time.time()-t1,2),'s', r.variables, len(trace))
# debug: numeric evaluation of the residual at a random rational point
import random
from fractions import Fraction as F
for trace,pc,r in res[:1]:
    syms=set()
    def collect(e):
        if z3.is_const(e) and e.decl().kind()==z3.Z3_OP_UNINTERPRETED: syms.add(e)
        for c in e.children(): collect(c)
    for qa in itertools.product(*[range(card[q]) for q in r.variables]):
        num=z3.Sum([joint_entry(dict(zip(card, st))) for st in itertools.product(*[range(card[v]) for v in card])
                    if st[3]==1 and all(st[names.index(q)]==qa[i] for i,q in enumerate(r.variables))])
        val=r.values[qa]
        resid=val.n*pe - num*val.d
        t0=time.time(); sm=z3.simplify(resid, som=True, som_blowup=10000000); print("som time", round(time.time()-t0,2), "size", len(str(sm)))
        print(str(sm)[:300])

import sys, time, itertools; sys.path.insert(0,'/tmp/probe')
import numpy as np, z3
import symreal as S
from symreal import SymReal
from pgmpy import config
config.set_backend("numpy", dtype=object)
config.set_show_progress(False)
config.get_compute_backend = lambda: S.NPProxy()
import pgmpy.utils.compat_fns as cf
from pgmpy.factors.discrete import DiscreteFactor, TabularCPD
from pgmpy.models import BayesianNetwork
from pgmpy.inference import VariableElimination
import logging; logging.getLogger("pgmpy").setLevel(logging.ERROR)

# structure: A -> C <- B, C -> D ; cards 2,2,2,2
edges=[('A','C'),('B','C'),('C','D')]
card={'A':2,'B':2,'C':3,'D':2}
parents={'A':[], 'B':[], 'C':['A','B'], 'D':['C']}
base=[]
tabs={}
for v in card:
    ncol=int(np.prod([card[p] for p in parents[v]])) if parents[v] else 1
    t=[[z3.Real(f"{v}_{i}_{j}") for j in range(ncol)] for i in range(card[v])]
    tabs[v]=t
    for j in range(ncol):
        base.append(z3.Sum([t[i][j] for i in range(card[v])])==1)
        for i in range(card[v]): base.append(t[i][j]>=0)

def joint_entry(assign):
    e=z3.RealVal(1)
    for v in card:
        col=0
        for p in parents[v]: col=col*card[p]+assign[p]
        e=e*tabs[v][assign[v]][col]
    return e

def run(query, evidence, order):
    def fn():
        m=BayesianNetwork(edges)
        for v in card:
            m.add_cpds(TabularCPD(v,card[v],[[SymReal(x) for x in row] for row in tabs[v]],
                      evidence=parents[v] or None, evidence_card=[card[p] for p in parents[v]] or None))
        ve=VariableElimination(m)
        r=ve.query(query, evidence=evidence, elimination_order=order, show_progress=False)
        return r
    return fn

query=['A','B']; evidence={'D':1}
# P(e)>0
others=[v for v in card]
pe=z3.Sum([joint_entry(dict(zip(card, st))) for st in itertools.product(*[range(card[v]) for v in card]) if st[list(card).index('D')]==1])
base.append(pe>0)
for order in ["greedy","MinFill",['C']]:
    t0=time.time()
    res=S.explore(run(query,evidence,order), base)
    print(order, "paths", len(res), "explore time", round(time.time()-t0,2))
    for trace,pc,r in res:
        # obligation: for each assignment, r == joint conditional
        s=z3.Solver(); s.add(*pc)
        neg=[]
        for qa in itertools.product(*[range(card[q]) for q in r.variables]):
            num=z3.Sum([joint_entry(dict(zip(card, st))) for st in itertools.product(*[range(card[v]) for v in card])
                        if st[3]==1 and all(st[list(card).index(q)]==qa[i] for i,q in enumerate(r.variables))])
            val=r.values[qa]
            neg.append(val.e*pe != num)
        s.add(z3.Or(*neg))
        t1=time.time(); print("  verdict", s.check(), round(time.time()-t1,2),'s', r.variables)

import sys, time, itertools; sys.path.insert(0,'/tmp/probe')
from fractions import Fraction as F
import numpy as np, z3, logging
import symreal3 as S
from symreal3 import SymReal
logging.getLogger("pgmpy").setLevel(logging.ERROR)
from pgmpy import config
config.set_backend("numpy", dtype=object); config.set_show_progress(False)
config.get_compute_backend = lambda: S.NPProxy()
from pgmpy.factors.discrete import TabularCPD
from pgmpy.models import BayesianNetwork
from pgmpy.inference import BeliefPropagation
edges=[('A','C'),('B','C'),('C','D')]
card=dict(zip('ABCD', map(int, sys.argv[2].split(','))))
parents={'A':[], 'B':[], 'C':['A','B'], 'D':['C']}
SYM=sys.argv[1].split(',')
names=[]
for v in card:
    ncol=int(np.prod([card[p] for p in parents[v]])) if parents[v] else 1
    if v in SYM: names += [f"{v}_{i}_{j}" for i in range(card[v]-1) for j in range(ncol)]
ctx=S.set_ctx(names)
import random; rnd=random.Random(1)
base=[]; tabs={}
for v in card:
    ncol=int(np.prod([card[p] for p in parents[v]])) if parents[v] else 1
    if v in SYM:
        t=[[ctx.sym(f"{v}_{i}_{j}",pos=True) for j in range(ncol)] for i in range(card[v]-1)]
        last=[]
        for j in range(ncol):
            l=SymReal.lift(1)
            for i in range(card[v]-1): l=l-t[i][j]
            l.pos=True; last.append(l)
        t.append(last)
        for row in t:
            for x in row: base.append(x.e>0)
    else:
        cols=[]
        for j in range(ncol):
            w=[rnd.randint(1,9) for _ in range(card[v])]; s=sum(w); cols.append([F(x,s) for x in w])
        t=[[SymReal.lift(cols[j][i]) for j in range(ncol)] for i in range(card[v])]
    tabs[v]=t
nm=list(card)
def joint(assign):
    e=SymReal.lift(1)
    for v in card:
        col=0
        for p in parents[v]: col=col*card[p]+assign[p]
        e=e*tabs[v][assign[v]][col]
    return e
def fn():
    m=BayesianNetwork(edges)
    for v in card:
        m.add_cpds(TabularCPD(v,card[v],tabs[v],evidence=parents[v] or None,evidence_card=[card[p] for p in parents[v]] or None))
    bp=BeliefPropagation(m)
    return bp.query(['A'], evidence={'D':1}, show_progress=False)
t0=time.time(); res,tot,unk=S.explore(fn,base); print(tot,"unknown-branches",len(unk)); print("paths",len(res),"explore time",round(time.time()-t0,2))
t1=time.time()
allst=list(itertools.product(*[range(card[v]) for v in nm]))
pe=SymReal.lift(0)
for st in allst:
    if st[3]==1: pe=pe+joint(dict(zip(nm,st)))
for tr,pc,r in res:
    ok=True
    for a in range(card['A']):
        num=SymReal.lift(0)
        for st in allst:
            if st[3]==1 and st[0]==a: num=num+joint(dict(zip(nm,st)))
        if (r.values[a]*pe).q != num.q: ok=False
    print("  canonical identity:",ok, round(time.time()-t1,2))

import numpy as np, logging
logging.getLogger("pgmpy").setLevel(logging.ERROR)
from pgmpy.models import MarkovNetwork
from pgmpy.factors.discrete import DiscreteFactor
from pgmpy.inference import BeliefPropagation, VariableElimination
m = MarkovNetwork([('A','B'),('B','C')])
f1 = DiscreteFactor(['A','B'],[2,2],[1,2,3,4])
f2 = DiscreteFactor(['A','B'],[2,2],[1,2,3,4])
f3 = DiscreteFactor(['B','C'],[2,2],[1,5,3,2])
m.add_factors(f1,f2,f3)
print("Z (MN)", m.get_partition_function())
try:
    jt = m.to_junction_tree()
    from pgmpy.factors import factor_product
    print("Z (JT)", factor_product(*jt.get_factors()).values.sum())
except Exception as e: print("JT error:", type(e).__name__, e)
fg = m.to_factor_graph()
print("FG factors", len(fg.get_factors()), "Z(FG)", fg.get_partition_function())

"""CausalInference.query P(Y | do(X)) with all CPDs symbolic vs truncated factorisation."""
import sys, time, itertools; sys.path.insert(0,'/tmp/probe')
import numpy as np, z3, logging
import symreal2 as S
from symreal2 import SymReal
logging.getLogger("pgmpy").setLevel(logging.ERROR)
from pgmpy import config
config.set_backend("numpy", dtype=object); config.set_show_progress(False)
config.get_compute_backend = lambda: S.NPProxy()
from pgmpy.factors.discrete import TabularCPD
from pgmpy.models import BayesianNetwork
from pgmpy.inference import CausalInference
import importlib; DFM=importlib.import_module('pgmpy.factors.discrete.DiscreteFactor'); DFM.isinstance=S.sym_isinstance
# confounded: Z -> X, Z -> Y, X -> Y, plus W -> X
edges=[('Z','X'),('Z','Y'),('X','Y'),('W','X')]
card={'Z':2,'W':2,'X':2,'Y':2}; parents={'Z':[],'W':[],'X':['Z','W'],'Y':['Z','X']}
base=[]; tabs={}
for v in card:
    ncol=int(np.prod([card[p] for p in parents[v]])) if parents[v] else 1
    t=[[z3.Real(f"{v}_{i}_{j}") for j in range(ncol)] for i in range(card[v]-1)]
    t.append([1-z3.Sum([t[i][j] for i in range(card[v]-1)]) for j in range(ncol)])
    for r in t:
        for x in r: base.append(x>0)
    tabs[v]=t
def theta(v,a):
    col=0
    for p in parents[v]: col=col*card[p]+a[p]
    return tabs[v][a[v]][col]
algo=sys.argv[1] if len(sys.argv)>1 else 've'
def fn():
    m=BayesianNetwork(edges)
    for v in card:
        m.add_cpds(TabularCPD(v,card[v],[[SymReal(x) for x in row] for row in tabs[v]],evidence=parents[v] or None,evidence_card=[card[p] for p in parents[v]] or None))
    ci=CausalInference(m)
    return ci.query(['Y'],do={'X':1},inference_algo=algo,show_progress=False)
t0=time.time(); res,tot,unk=S.explore(fn,base); print("paths",len(res),tot,"unk",len(unk),round(time.time()-t0,2))
names=list(card)
for tr,pc,r in res:
    neg=[]; ident=0
    for y in range(2):
        # truncated factorisation: sum_{z,w} P(z)P(w)P(y|z,X=1)
        num=z3.Sum([theta('Z',dict(Z=z))*theta('W',dict(W=w))*theta('Y',dict(Z=z,X=1,Y=y)) for z in range(2) for w in range(2)])
        v=r.get_value(Y=y)
        if S.is_zero_poly(v.n-num*v.d): ident+=1; continue
        neg.append(v.n != num*v.d)
    if not neg: print("identity x",ident); continue
    s=z3.Solver(); s.add(*base,*pc,z3.Or(*neg)); s.set('timeout',60000); t1=time.time(); print("verdict",s.check(),round(time.time()-t1,2))

import z3, time, itertools, sys
n=int(sys.argv[1]); V=list(range(n))
E={(i,j): z3.Bool(f"e_{i}_{j}") for i in V for j in V if i!=j}
base=[]
rk=[z3.Int(f"r{i}") for i in V]
for i in V: base += [rk[i]>=0, rk[i]<n]
for (i,j),e in E.items(): base.append(z3.Implies(e, rk[i]<rk[j]))
O=[z3.Bool(f"o{i}") for i in V]   # symbolic observed set
def anc_closure(seed):
    cur=list(seed)
    for _ in range(n-1):
        cur=[z3.Or(cur[i], *[z3.And(E[(i,j)], cur[j]) for j in V if j!=i]) for i in V]
    return cur
def dsepB(x,y):
    seed=[z3.Or(z3.BoolVal(i in (x,y)), O[i]) for i in V]
    A=anc_closure(seed)
    def und(i,j):
        direct=z3.Or(E[(i,j)],E[(j,i)])
        moral=z3.Or(*[z3.And(A[c],E[(i,c)],E[(j,c)]) for c in V if c not in (i,j)]) if n>2 else z3.BoolVal(False)
        return z3.And(A[i],A[j],z3.Or(direct,moral))
    reach=[z3.BoolVal(i==x) for i in V]
    for _ in range(n-1):
        reach=[z3.And(z3.Not(O[i]), z3.Or(reach[i], *[z3.And(reach[j], und(i,j)) for j in V if j!=i])) for i in V]
    return z3.Not(reach[y])
def dsepA(x,y):
    """Bayes-ball: states (node, dir) dir in {up(from child),down(from parent)}; K&F Alg 3.1"""
    A=anc_closure(O)   # ancestors of observed (incl.)
    up=[z3.BoolVal(i==x) for i in V]; dn=[z3.BoolVal(False) for i in V]
    for _ in range(2*n):
        nup=[]; ndn=[]
        for i in V:
            # (i,up) reached from child c in state up (not observed c) -> parent i ; or from (c,down) with c in A -> parents of c
            u=z3.Or(up[i], *[z3.And(E[(i,c)], z3.Or(z3.And(up[c], z3.Not(O[c])), z3.And(dn[c], A[c]))) for c in V if c!=i])
            # (i,down) reached from parent p: (p,up) not observed -> children ; (p,down) not observed -> children
            d=z3.Or(dn[i], *[z3.And(E[(p,i)], z3.Not(O[p]), z3.Or(up[p], dn[p])) for p in V if p!=i])
            nup.append(u); ndn.append(d)
        up,dn=nup,ndn
    return z3.Not(z3.And(z3.Not(O[y]), z3.Or(up[y],dn[y])))
t0=time.time(); bad=0
for x,y in itertools.permutations(V,2):
    s=z3.Solver(); s.add(*base, z3.Not(O[x]), z3.Not(O[y]), dsepA(x,y)!=dsepB(x,y))
    r=s.check()
    if str(r)!='unsat': bad+=1; print(x,y,r, s.model() if str(r)=='sat' else '')
print("n",n,"pairs",n*(n-1),"disagree",bad,"time",round(time.time()-t0,1))

"""Prototype v3: SymReal = canonical rational function (sympy FracField over QQ, automatic GCD cancellation);
z3 terms are produced on demand for decisions/obligations."""
import z3, math, numbers, time, sys
from fractions import Fraction
import numpy as _np
from sympy import field, QQ

class Ctx:
    def __init__(self, names):
        self.names = list(names)
        res = field(",".join(self.names), QQ)
        self.K = res[0]; self.gens = dict(zip(self.names, res[1:]))
        self.zvars = {n: z3.Real(n) for n in self.names}
    def sym(self, name, pos=False): return SymReal(self.gens[name], pos)
CTX = None
def set_ctx(names):
    global CTX; CTX = Ctx(names); return CTX
def RV(x):
    fr = Fraction(x); return z3.RealVal(str(fr.numerator)) if fr.denominator == 1 else z3.Q(fr.numerator, fr.denominator)
def poly_to_z3(p):
    ring = p.ring; gens = [CTX.zvars[str(g)] for g in ring.symbols]
    terms = []
    for mon, coeff in p.terms():
        t = RV(Fraction(int(coeff.numerator), int(coeff.denominator)))
        for g, e in zip(gens, mon):
            for _ in range(e): t = t * g
        terms.append(t)
    return z3.Sum(terms) if terms else z3.RealVal(0)

class Engine:
    def __init__(self, base):
        self.base = list(base); self.pc = []; self.trace = []; self.prefix = []
        self.stats = dict(decides=0, solver_calls=0, solver_time=0.0, unknown=0)
        self.solver = z3.Solver(); self.solver.add(*self.base); self.model = None
    def witness(self):
        if self.model is None:
            s = z3.Solver(); s.add(*self.base, *self.pc); assert str(s.check()) == 'sat'; self.model = s.model()
        return self.model
    def decide(self, expr):
        expr = z3.simplify(expr)
        if z3.is_true(expr): return True
        if z3.is_false(expr): return False
        self.stats['decides'] += 1
        i = len(self.trace)
        if i < len(self.prefix):
            d = self.prefix[i]; self.trace.append(d); self.pc.append(expr if d else z3.Not(expr)); self.model = None; return d
        ev = self.witness().eval(expr, model_completion=True)
        if not (z3.is_true(ev) or z3.is_false(ev)):
            self.solver.push(); self.solver.add(*self.pc, expr); rt = str(self.solver.check()); self.solver.pop()
            ev = z3.BoolVal(rt == 'sat'); self.model = None
        w = z3.is_true(ev); other = z3.Not(expr) if w else expr
        t0 = time.time(); self.solver.push(); self.solver.add(*self.pc, other); self.solver.set('timeout', 5000)
        r = str(self.solver.check()); self.solver.pop()
        self.stats['solver_calls'] += 1; self.stats['solver_time'] += time.time() - t0
        if r == 'unknown': self.stats['unknown'] += 1; self.unknowns.append((list(self.pc), other))
        if r == 'sat': self.pending.append(self.trace + [not w])
        self.trace.append(w); self.pc.append(expr if w else z3.Not(expr))
        return w
ENG = None
def explore(fn, base):
    global ENG
    pending = [[]]; results = []; unknowns = []; tot = {}
    while pending:
        pre = pending.pop()
        ENG = Engine(base); ENG.pending = pending; ENG.prefix = pre; ENG.unknowns = unknowns
        out = fn()
        for k, v in ENG.stats.items(): tot[k] = tot.get(k, 0) + v
        results.append((list(ENG.trace), list(ENG.pc), out))
    return results, tot, unknowns
class SymBool:
    def __init__(self, e): self.e = e
    def __bool__(self): return ENG.decide(self.e)

class SymReal:
    __slots__ = ('q', 'pos', '_e')
    __hash__ = None
    def __init__(self, q, pos=False): self.q = q; self.pos = pos; self._e = None
    @property
    def e(self):
        if self._e is None:
            n = poly_to_z3(self.q.numer); d = self.q.denom
            self._e = n if d == d.ring.one else n / poly_to_z3(d)
        return self._e
    @staticmethod
    def lift(o):
        if isinstance(o, SymReal): return o
        if isinstance(o, (bool, numbers.Integral)): return SymReal(CTX.K(int(o)), pos=int(o) > 0)
        if isinstance(o, numbers.Rational): return SymReal(CTX.K(QQ(o.numerator, o.denominator)), pos=o > 0)
        if isinstance(o, numbers.Real):
            f = float(o)
            if math.isnan(f) or math.isinf(f): return None
            fr = Fraction(f); return SymReal(CTX.K(QQ(fr.numerator, fr.denominator)), pos=f > 0)
        return NotImplemented
    def __add__(self, o):
        o = SymReal.lift(o)
        if o is NotImplemented: return o
        return SymReal(self.q + o.q, self.pos and o.pos)
    __radd__ = __add__
    def __neg__(self): return SymReal(-self.q)
    def __sub__(self, o):
        o = SymReal.lift(o)
        if o is NotImplemented: return o
        return SymReal(self.q - o.q)
    def __rsub__(self, o): return SymReal.lift(o) - self
    def __mul__(self, o):
        o = SymReal.lift(o)
        if o is NotImplemented: return o
        return SymReal(self.q * o.q, self.pos and o.pos)
    __rmul__ = __mul__
    def __truediv__(self, o):
        o = SymReal.lift(o)
        if o is NotImplemented: return o
        if o.q == 0 or (not o.pos and bool(SymBool(poly_to_z3(o.q.numer) == 0))):
            if self.q == 0 or bool(SymBool(poly_to_z3(self.q.numer) == 0)): return float('nan')
            return float('inf') if bool(SymBool(self.e > 0)) else float('-inf')
        return SymReal(self.q / o.q, self.pos and o.pos)
    def __rtruediv__(self, o): return SymReal.lift(o) / self
    def _cmp(self, o, f):
        o = SymReal.lift(o); return SymBool(f(self.e, o.e))
    def __lt__(self, o): return self._cmp(o, lambda a, b: a < b)
    def __le__(self, o): return self._cmp(o, lambda a, b: a <= b)
    def __gt__(self, o): return self._cmp(o, lambda a, b: a > b)
    def __ge__(self, o): return self._cmp(o, lambda a, b: a >= b)
    def __eq__(self, o):
        o = SymReal.lift(o)
        if o is NotImplemented or o is None: return False
        if self.q == o.q: return True
        return SymBool(self.e == o.e)
    def __ne__(self, o):
        r = self.__eq__(o); return (not r) if isinstance(r, bool) else SymBool(z3.Not(r.e))
    def __abs__(self): return self if self.pos else SymReal.lift(0) + (self if bool(SymBool(self.e >= 0)) else -self)
    def __bool__(self): return self.q != 0 and (self.pos or bool(SymBool(poly_to_z3(self.q.numer) != 0)))
    def __repr__(self): return f"S({self.q})"
def _arr0(self):
    a = _np.empty((), dtype=object); a[()] = self; return a
SymReal.flatten = lambda self, *a, **k: _arr0(self).reshape(1)
SymReal.ravel = SymReal.flatten
SymReal.reshape = lambda self, *shape: _arr0(self).reshape(*shape)
SymReal.sum = lambda self, *a, **k: self
SymReal.max = lambda self, *a, **k: self
SymReal.copy = lambda self: self
class NPProxy:
    def __getattr__(self, k): return getattr(_np, k)
    def isnan(self, a):
        a = _np.asarray(a)
        if a.dtype != object: return _np.isnan(a)
        out = _np.zeros(a.shape, dtype=bool)
        for idx, v in _np.ndenumerate(a): out[idx] = isinstance(v, float) and math.isnan(v)
        return out
    def allclose(self, a, b, rtol=1e-05, atol=1e-08):
        a = _np.asarray(a, dtype=object); b = _np.asarray(b, dtype=object); a, b = _np.broadcast_arrays(a, b)
        conj = []
        for x, y in zip(a.ravel(), b.ravel()):
            x = SymReal.lift(x); y = SymReal.lift(y)
            if x.q == y.q: continue
            absy = z3.If(y.e >= 0, y.e, -y.e); d = z3.If(x.e - y.e >= 0, x.e - y.e, y.e - x.e)
            conj.append(d <= RV(Fraction(atol)) + RV(Fraction(rtol)) * absy)
        if not conj: return True
        return bool(SymBool(z3.And(*conj)))

"""C20 - linear-Gaussian models agree with multivariate-normal algebra (DESIGN.md 5/C20; partial)."""
import itertools

import numpy as np

from symx import core, stubs

PROPERTY = "C20"
LEVEL = "model_checking"
BOUNDS = {
    "quick": "LinearGaussianBayesianNetwork.to_joint_gaussian and predict on every DAG with <=3 nodes (one topological order, permuted labels) with symbolic "
             "intercepts, coefficients, positive variances and symbolic observed values, every split into observed/missing variables; "
             "GaussianDistribution.marginalize / reduce / copy / to_canonical_factor and CanonicalDistribution.product on symbolic 2- and 3-variable distributions "
             "built from a symbolic linear-Gaussian network",
    "thorough": "4-node DAGs",
}
ASSUMPTIONS = ["exact real arithmetic; the 8-decimal rounding in to_joint_gaussian is modelled as the identity",
               "numpy.linalg.inv is modelled by symbolic Gauss-Jordan elimination with pivot forks (LAPACK itself is outside)",
               "in the canonical form g, log and the square root of the determinant are uninterpreted functions (K and h are exact)",
               "fit (least squares through sklearn), simulate and pdf values are outside the claim; covariance matrices come from linear-Gaussian networks "
               "with positive variances (hence positive definite)"]


class _Linalg:
    def __getattr__(self, k):
        return getattr(np.linalg, k)

    @staticmethod
    def inv(a):
        a = np.asarray(a, dtype=object)
        if not any(isinstance(x, core.SymReal) for x in a.ravel()):
            return np.linalg.inv(a.astype(float))
        stubs._hit("np.linalg.inv -> symbolic Gauss-Jordan")
        n = a.shape[0]
        Mx = [[core.lift(a[i, j]) for j in range(n)] + [core.lift(1 if i == j else 0) for j in range(n)] for i in range(n)]
        for c in range(n):
            p = None
            for r in range(c, n):
                if not Mx[r][c].iszero():
                    p = r
                    break
            if p is None:
                raise np.linalg.LinAlgError("Singular matrix")
            Mx[c], Mx[p] = Mx[p], Mx[c]
            pv = Mx[c][c]
            Mx[c] = [x / pv for x in Mx[c]]
            for r in range(n):
                if r != c:
                    f = Mx[r][c]
                    Mx[r] = [x - f * y for x, y in zip(Mx[r], Mx[c])]
        out = np.empty((n, n), dtype=object)
        for i in range(n):
            for j in range(n):
                out[i, j] = Mx[i][n + j]
        return out

    @staticmethod
    def det(a):
        a = np.asarray(a, dtype=object)
        if not any(isinstance(x, core.SymReal) for x in a.ravel()):
            return np.linalg.det(a.astype(float))
        stubs._hit("np.linalg.det -> cofactor expansion")

        def d(Mx):
            if len(Mx) == 1:
                return Mx[0][0]
            t = core.lift(0)
            for j in range(len(Mx)):
                minor = [r[:j] + r[j + 1:] for r in Mx[1:]]
                t = t + (Mx[0][j] * d(minor) if j % 2 == 0 else -(Mx[0][j] * d(minor)))
            return t
        return d([[core.lift(x) for x in row] for row in a.tolist()])

    @staticmethod
    def multi_dot(arrs):
        r = arrs[0]
        for x in arrs[1:]:
            r = r @ x
        return r


class _NPL:
    linalg = _Linalg()

    def __getattr__(self, k):
        return getattr(np, k)

    @staticmethod
    def zeros(shape, dtype=None, **kw):
        a = np.empty(shape, dtype=object)
        a.fill(core.lift(0) if core.CTX is not None else 0.0)
        return a

    @staticmethod
    def eye(n, **kw):
        a = _NPL.zeros((n, n))
        for i in range(n):
            a[i, i] = core.lift(1)
        return a

    @staticmethod
    def asarray(a, dtype=None, **kw):
        return np.asarray(a, dtype=object if dtype in (float, None) else dtype)

    @staticmethod
    def log(x):
        if isinstance(x, core.SymReal):
            stubs._hit("np.log -> uninterpreted")
            return core.CTX.uf("ln", x)
        return np.log(x)

    @staticmethod
    def power(x, e):
        if isinstance(x, core.SymReal):
            stubs._hit("np.power -> uninterpreted")
            return core.CTX.uf(f"pow_{e}", x)
        return np.power(x, e)

    @staticmethod
    def array(a, dtype=None, **kw):
        return np.array(a, dtype=object if dtype in (float, None) else dtype)


def install_stubs(desc):
    stubs.patch_attr("pgmpy.models.LinearGaussianBayesianNetwork", "np", _NPL())
    stubs.patch_attr("pgmpy.factors.distributions.GaussianDistribution", "np", _NPL())
    stubs.patch_attr("pgmpy.factors.continuous.LinearGaussianCPD", "np", _NPL())
    stubs.patch_attr("pgmpy.factors.distributions.CanonicalDistribution", "np", _NPL())


LABELS = [["x1", "x2", "x3", "x4"], ["c", "a", "b", "d"], ["n3", "n1", "n2", "n0"]]


def scenarios(tier, seed):
    out = []
    k = 0
    for n in ((1, 2, 3) if tier == "quick" else (1, 2, 3, 4)):
        pairs = [(u, v) for u in range(n) for v in range(u + 1, n)]
        for mask in range(1 << len(pairs)):
            edges = [pairs[i] for i in range(len(pairs)) if mask >> i & 1]
            for lab in range(len(LABELS)):
                k += 1
                if tier == "quick" and n == 3 and k % 2:
                    continue
                out.append(dict(family="lgbn/joint", mode="joint", n=n, edges=edges, labels=lab, hashseed=k % 2, budget_s=60))
                if n >= 2:
                    for r in range(1, n):
                        for miss in itertools.combinations(range(n), r):
                            k += 1
                            if tier == "quick" and (k % 3):
                                continue
                            out.append(dict(family="lgbn/predict", mode="predict", n=n, edges=edges, labels=lab, missing=list(miss), hashseed=k % 2,
                                            budget_s=60))
            if n >= 2:
                for op in ("marginalize", "reduce", "copy", "precision_seq", "canonical"):
                    k += 1
                    out.append(dict(family=f"gaussian/{op}", mode="gauss", op=op, n=n, edges=edges, labels=k % len(LABELS), which=k, hashseed=k % 2, budget_s=60))
    return out


def sym_names(n, edges):
    names = []
    for v in range(n):
        names += [f"b{v}", f"s{v}"] + [f"w{u}_{v}" for (u, vv) in edges if vv == v]
    return names + [f"x{v}" for v in range(n)]


def build(desc, M):
    from pgmpy.factors.continuous import LinearGaussianCPD
    from pgmpy.models import LinearGaussianBayesianNetwork
    n = desc["n"]
    edges = [tuple(e) for e in desc["edges"]]
    lab = LABELS[desc["labels"]]
    M.declare(sym_names(n, edges), extra=(16 if desc.get("op") == "canonical" else 0))
    b = [M.sym(f"b{v}") for v in range(n)]
    s = [M.sym(f"s{v}", pos=True) for v in range(n)]
    w = {(u, v): M.sym(f"w{u}_{v}") for (u, v) in edges}
    x = [M.sym(f"x{v}") for v in range(n)]
    model = LinearGaussianBayesianNetwork()
    model.add_nodes_from([lab[v] for v in range(n)][::-1])
    model.add_edges_from([(lab[u], lab[v]) for u, v in edges])
    for v in range(n):
        pa = [u for (u, vv) in edges if vv == v][::-1]  # declared in non-sorted order
        model.add_cpds(LinearGaussianCPD(lab[v], [M.impl(b[v])] + [M.impl(w[(u, v)]) for u in pa], M.impl(s[v]), [lab[u] for u in pa]))
    return model, lab, b, s, w, x


def oracle_joint(n, edges, b, s, w, M):
    """mean by recursive substitution; covariance by the recursion cov(v,t) = sum_u w_uv cov(u,t), var(v) = s_v + sum w w cov"""
    mu = [None] * n
    cov = [[None] * n for _ in range(n)]
    for v in range(n):
        pa = [u for (u, vv) in edges if vv == v]
        m = b[v]
        for u in pa:
            m = m + w[(u, v)] * mu[u]
        mu[v] = m
        for t in range(v):
            c = M.const(0)
            for u in pa:
                c = c + w[(u, v)] * cov[u][t]
            cov[v][t] = cov[t][v] = c
        var = s[v]
        for u in pa:
            for u2 in pa:
                var = var + w[(u, v)] * w[(u2, v)] * cov[u][u2]
        cov[v][v] = var
    return mu, cov


def mat_inv(A, M):
    """independent exact inverse (cofactor expansion) for the oracle, n <= 3"""
    n = len(A)
    if n == 1:
        return [[M.const(1) / A[0][0]]]

    def det(Mx):
        if len(Mx) == 1:
            return Mx[0][0]
        if len(Mx) == 2:
            return Mx[0][0] * Mx[1][1] - Mx[0][1] * Mx[1][0]
        t = M.const(0)
        for j in range(len(Mx)):
            minor = [r[:j] + r[j + 1:] for r in Mx[1:]]
            t = t + (Mx[0][j] * det(minor) if j % 2 == 0 else -(Mx[0][j] * det(minor)))
        return t
    d = det(A)
    out = [[None] * n for _ in range(n)]
    for i in range(n):
        for j in range(n):
            minor = [r[:j] + r[j + 1:] for k, r in enumerate(A) if k != i]
            c = det(minor) if minor and minor[0] else M.const(1)
            out[j][i] = (c if (i + j) % 2 == 0 else -c) / d
    return out


def conditional(mu, cov, miss, obs, xobs, M):
    """Gaussian conditional of `miss` given `obs` = xobs"""
    Sbb = [[cov[i][j] for j in obs] for i in obs]
    inv = mat_inv(Sbb, M)
    K = [[sum((cov[a][obs[k]] * inv[k][j] for k in range(len(obs))), M.const(0)) for j in range(len(obs))] for a in miss]
    mc = [mu[a] + sum((K[i][j] * (xobs[j] - mu[obs[j]]) for j in range(len(obs))), M.const(0)) for i, a in enumerate(miss)]
    cc = [[cov[a][a2] - sum((K[i][j] * cov[obs[j]][a2] for j in range(len(obs))), M.const(0)) for a2 in miss] for i, a in enumerate(miss)]
    return mc, cc


def run(desc, M):
    import pandas as pd
    model, lab, b, s, w, x = build(desc, M)
    n = desc["n"]
    edges = [tuple(e) for e in desc["edges"]]
    mu, cov = oracle_joint(n, edges, b, s, w, M)
    idx = {lab[v]: v for v in range(n)}
    if desc["mode"] == "joint":
        import networkx as nx
        mean, C = model.to_joint_gaussian()
        order = [idx[v] for v in nx.topological_sort(model)]
        M.check(len(mean) == n and tuple(C.shape) == (n, n), "joint mean/covariance shapes")
        for i, v in enumerate(order):
            M.eq(mean[i], mu[v], "joint mean equals recursive substitution of the structural equations", detail=f"{lab[v]}")
            for j, t in enumerate(order):
                M.eq(C[i][j], cov[v][t], "joint covariance equals (I-B)^-T Omega (I-B)^-1", detail=f"{lab[v]},{lab[t]}")
        if M.symbolic:
            M.samples.append(f"edges {edges}: covariance entries are rational functions of the symbolic coefficients/variances")
        return
    if desc["mode"] == "predict":
        miss = desc["missing"]
        obs = [v for v in range(n) if v not in miss]
        data = pd.DataFrame({lab[v]: [M.impl(x[v])] for v in obs}, dtype=object if M.symbolic else float)
        variables, mu_c, cov_c = model.predict(data)
        mc, cc = conditional(mu, cov, miss, obs, [x[v] for v in obs], M)
        M.check(set(variables) == {lab[v] for v in miss} and len(variables) == len(miss), "predict returns the missing variables", detail=str(variables))
        mu_c = np.asarray(mu_c, dtype=object)
        cov_c = np.asarray(cov_c, dtype=object)
        M.check(tuple(mu_c.shape) == (1, len(miss)), "conditional mean has one row per data row", detail=str(mu_c.shape))
        M.check(tuple(cov_c.shape) == (len(miss), len(miss)), "conditional covariance is |missing| x |missing|", detail=str(cov_c.shape))
        if tuple(mu_c.shape) != (1, len(miss)) or tuple(cov_c.shape) != (len(miss), len(miss)):
            return
        for i, vn in enumerate(variables):
            a = miss.index(idx[vn])
            M.eq(mu_c[0][i], mc[a], "predicted mean equals the Gaussian conditional mean", detail=f"{vn} | observed {[lab[v] for v in obs]}")
            for j, vn2 in enumerate(variables):
                a2 = miss.index(idx[vn2])
                M.eq(cov_c[i][j], cc[a][a2], "predicted covariance equals the Gaussian conditional covariance", detail=f"{vn},{vn2} | observed {[lab[v] for v in obs]}")
        return
    # GaussianDistribution on the joint of the network
    from pgmpy.factors.distributions import GaussianDistribution
    names = [lab[v] for v in range(n)]
    g = GaussianDistribution(names, [M.impl(m) for m in mu], [[M.impl(c) for c in row] for row in cov])
    op = desc["op"]
    k = desc["which"]
    if op == "marginalize":
        drop = [k % n]
        keep = [v for v in range(n) if v not in drop]
        g2 = g.marginalize([lab[v] for v in drop], inplace=False)
        M.check(list(g2.variables) == [lab[v] for v in keep], "marginal scope", detail=str(g2.variables))
        for i, v in enumerate(keep):
            M.eq(g2.mean[i][0], mu[v], "marginal mean = sub-vector")
            for j, t in enumerate(keep):
                M.eq(g2.covariance[i][j], cov[v][t], "marginal covariance = sub-block")
        M.check(list(g.variables) == names and tuple(np.shape(g.covariance)) == (n, n), "marginalize(inplace=False) leaves the distribution")
    elif op == "reduce":
        red = [k % n]
        keep = [v for v in range(n) if v not in red]
        g2 = g.reduce([(lab[v], M.impl(x[v])) for v in red], inplace=False)
        mc, cc = conditional(mu, cov, keep, red, [x[v] for v in red], M)
        M.check(list(g2.variables) == [lab[v] for v in keep], "reduced scope", detail=str(g2.variables))
        for i, v in enumerate(keep):
            M.eq(g2.mean[i][0], mc[i], "reduce = Gaussian conditional mean")
            for j, t in enumerate(keep):
                M.eq(g2.covariance[i][j], cc[i][j], "reduce = Gaussian conditional covariance")
    elif op == "precision_seq":
        # history: precision computed first (cached), then marginalise / reduce / copy; the derived objects' precision must be the inverse of
        # THEIR covariance (K * Sigma = I), for in-place and out-of-place forms
        K0 = g.precision_matrix
        for i in range(n):
            for j in range(n):
                acc = M.const(0)
                for t in range(n):
                    acc = acc + K0[i][t] * cov[t][j]
                M.eq(acc, 1 if i == j else 0, "precision matrix is the inverse of the covariance")
        drop = [k % n]
        keep = [v for v in range(n) if v not in drop]
        for variant in ("out", "copy", "inplace"):
            if variant == "out":
                g2 = g.marginalize([lab[v] for v in drop], inplace=False)
            elif variant == "copy":
                g2 = g.copy()
                g2.marginalize([lab[v] for v in drop])
            else:
                g2 = g
                g2.marginalize([lab[v] for v in drop])
            K2 = g2.precision_matrix
            for i in range(len(keep)):
                for j in range(len(keep)):
                    acc = M.const(0)
                    for t in range(len(keep)):
                        acc = acc + K2[i][t] * cov[keep[t]][keep[j]]
                    M.eq(acc, 1 if i == j else 0, f"precision of a marginal ({variant}) is the inverse of the marginal covariance (no stale cache)")
    elif op == "canonical":
        # canonical form of the joint: K Sigma = I and Sigma h = mu (no inverse needed); product of the canonical forms of two marginals adds
        # K and h entry-wise BY VARIABLE NAME over the union scope, and g adds up
        phi = g.to_canonical_factor()
        M.check(list(phi.variables) == names, "canonical factor keeps the scope", detail=str(phi.variables))
        for i in range(n):
            acc_h = M.const(0)
            for t in range(n):
                acc_h = acc_h + cov[i][t] * phi.h[t][0]
            M.eq(acc_h, mu[i], "canonical form: Sigma h = mu")
            for j in range(n):
                acc = M.const(0)
                for t in range(n):
                    acc = acc + phi.K[i][t] * cov[t][j]
                M.eq(acc, 1 if i == j else 0, "canonical form: K is the inverse of the covariance")
        if n >= 3:
            sa = [0, 1] if k % 2 else [1, 0]
            sb = [2, 1] if k % 3 else [1, 2]
            ga = GaussianDistribution([names[v] for v in sa], [M.impl(mu[v]) for v in sa], [[M.impl(cov[u][v]) for v in sa] for u in sa])
            gb = GaussianDistribution([names[v] for v in sb], [M.impl(mu[v]) for v in sb], [[M.impl(cov[u][v]) for v in sb] for u in sb])
            pa, pb = ga.to_canonical_factor(), gb.to_canonical_factor()
            Ka, ha, ga_ = np.array(pa.K, dtype=object).copy(), np.array(pa.h, dtype=object).copy(), pa.g
            Kb, hb, gb_ = np.array(pb.K, dtype=object).copy(), np.array(pb.h, dtype=object).copy(), pb.g
            for variant in ("out", "inplace"):
                if variant == "out":
                    pr = pa.product(pb, inplace=False) if k % 2 else pa * pb
                else:
                    pr = pa
                    pa.product(pb, inplace=True)
                M.check(set(pr.variables) == {names[v] for v in set(sa) | set(sb)} and len(pr.variables) == 3, f"canonical product ({variant}): union scope", detail=str(pr.variables))
                pos = {v_: i for i, v_ in enumerate(pr.variables)}

                def part(Kx, hx, scope, u, v=None):
                    nm_ = [names[x] for x in scope]
                    if u not in nm_ or (v is not None and v not in nm_):
                        return M.const(0)
                    return hx[nm_.index(u)][0] if v is None else Kx[nm_.index(u)][nm_.index(v)]
                for u in pr.variables:
                    M.eq(pr.h[pos[u]][0], part(Ka, ha, sa, u) + part(Kb, hb, sb, u), f"canonical product ({variant}): h adds up by variable name", detail=u)
                    for v in pr.variables:
                        M.eq(pr.K[pos[u]][pos[v]], part(Ka, ha, sa, u, v) + part(Kb, hb, sb, u, v), f"canonical product ({variant}): K adds up by variable name", detail=f"{u},{v}")
                M.eq(pr.g, ga_ + gb_, f"canonical product ({variant}): g adds up")
                if variant == "out":
                    M.check(list(pa.variables) == [names[v] for v in sa] and tuple(np.shape(pa.K)) == (2, 2), "canonical product (out of place) leaves the left operand")
            # the same product through GaussianDistribution.product (moment form): the result is the Gaussian with precision K_a (+) K_b and
            # potential h_a (+) h_b, i.e. K_total * Sigma = I and K_total * mu = h_total; in-place form included
            Kt = {}
            ht = {}
            for scope, Kx, hx in ((sa, Ka, ha), (sb, Kb, hb)):
                for i_, u in enumerate(scope):
                    ht[names[u]] = ht.get(names[u], M.const(0)) + hx[i_][0]
                    for j_, v in enumerate(scope):
                        Kt[(names[u], names[v])] = Kt.get((names[u], names[v]), M.const(0)) + Kx[i_][j_]
            for variant in ("out", "inplace"):
                g_left = GaussianDistribution([names[v] for v in sa], [M.impl(mu[v]) for v in sa], [[M.impl(cov[u][v]) for v in sa] for u in sa])
                if variant == "out":
                    gp = g_left.product(gb, inplace=False)
                else:
                    ret = g_left.product(gb)
                    M.check(ret is None, "GaussianDistribution.product(inplace=True) returns None")
                    gp = g_left
                if not M.check(set(gp.variables) == {names[v] for v in set(sa) | set(sb)} and len(gp.variables) == 3,
                               f"Gaussian product ({variant}): the result is over the union scope", detail=str(gp.variables)):
                    continue
                vs_ = list(gp.variables)
                for u in vs_:
                    acc = M.const(0)
                    for t_, w_ in enumerate(vs_):
                        acc = acc + Kt.get((u, w_), M.const(0)) * gp.mean[t_][0]
                    M.eq(acc, ht[u], f"Gaussian product ({variant}): K_total mu = h_total", detail=u)
                    for j_, v in enumerate(vs_):
                        acc = M.const(0)
                        for t_, w_ in enumerate(vs_):
                            acc = acc + Kt.get((u, w_), M.const(0)) * gp.covariance[t_][j_]
                        M.eq(acc, 1 if u == v else 0, f"Gaussian product ({variant}): K_total Sigma = I", detail=f"{u},{v}")
    else:
        g2 = g.copy()
        M.check(list(g2.variables) == list(g.variables), "copy keeps the variables")
        for i in range(n):
            M.eq(g2.mean[i][0], mu[i], "copy keeps the mean")
            for j in range(n):
                M.eq(g2.covariance[i][j], cov[i][j], "copy keeps the covariance")
        g2.marginalize([names[0]])
        M.check(list(g.variables) == names, "editing the copy leaves the original")

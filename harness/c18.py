"""C18 - independence reasoning is sound: equivalence, closure and I-maps (DESIGN.md 5/C18)."""
import itertools

import numpy as np
import z3

from symx import core, stubs
from . import common as C
from .c12 import all_labelled_dags, is_acyclic, vstructures

PROPERTY = "C18"
LEVEL = "model_checking"
BOUNDS = {
    "quick": "(a) is_iequivalent/get_immoralities on all 625 pairs of labelled 3-node DAGs and all same-skeleton pairs of 4-node DAGs (sampled 1/4); "
             "(b) Independencies.closure/entails/is_equivalent on all assertion sets of size <=2 over 3 variables and sampled sets of size <=2 "
             "over 4 variables against the z3 Horn-clause least-model oracle of the semi-graphoid axioms; (c) JointProbabilityDistribution."
             "check_independence/get_independencies/is_imap/minimal_imap on symbolic 2x2x2 joints (generic and product-form)",
    "thorough": "(a) all same-skeleton 4-node pairs, (b) sets of size <=3 over 4 variables, (c) 2x3x2 joints",
}
ASSUMPTIONS = ["exact real arithmetic", "tolerance of numerical independence tests modelled exactly as numpy's allclose formula (atol 1e-8, rtol 1e-5)"]


def install_stubs(desc):
    if desc["mode"] == "jpd":
        stubs.patch_module_np("pgmpy.factors.discrete.JointProbabilityDistribution")


def triples(V):
    """all (A, B, C): pairwise disjoint, A and B non-empty, as (frozenset, frozenset, frozenset)"""
    out = []
    for assign in itertools.product((0, 1, 2, 3), repeat=len(V)):
        A = frozenset(v for v, a in zip(V, assign) if a == 1)
        B = frozenset(v for v, a in zip(V, assign) if a == 2)
        Cc = frozenset(v for v, a in zip(V, assign) if a == 3)
        if A and B:
            out.append((A, B, Cc))
    return out


def canon(A, B, Cc):
    return (frozenset((frozenset(A), frozenset(B))), frozenset(Cc))


def scenarios(tier, seed):
    out = []
    k = 0
    # (a)
    d3 = all_labelled_dags(3)
    for i in range(0, len(d3)):
        out.append(dict(family="iequiv/n3", mode="iequiv", n=3, first=[d3[i]], second=d3, hashseed=i % 2))
    d4 = all_labelled_dags(4)
    by_skel = {}
    for d in d4:
        by_skel.setdefault(frozenset(frozenset(e) for e in d), []).append(d)
    step = 4 if tier == "quick" else 1
    for si, (sk, ds) in enumerate(sorted(by_skel.items(), key=lambda kv: sorted(map(sorted, kv[0])))):
        if len(ds) < 2:
            continue
        firsts = ds[(seed + si) % step::step]
        for j in range(0, len(firsts), 6):
            out.append(dict(family="iequiv/n4", mode="iequiv", n=4, first=firsts[j:j + 6], second=ds, hashseed=si % 2))
    # (b)
    for V in (["A", "B", "C"], ["A", "B", "C", "D"]):
        T = triples(V)
        can = sorted({canon(*t) for t in T}, key=lambda c: (sorted(map(sorted, c[0])), sorted(c[1])))
        sets_ = [[c] for c in can] + [list(p) for p in itertools.combinations(can, 2)]
        if tier == "thorough" and len(V) == 3:
            sets_ += [list(p) for p in itertools.combinations(can, 3)]
        if len(V) == 4:
            import random
            rnd = random.Random(seed)
            singles = [[c] for c in can]
            pairs = [list(p) for p in itertools.combinations(can, 2)]
            rnd.shuffle(pairs)
            sets_ = singles + pairs[: (150 if tier == "quick" else 1500)]
            if tier == "thorough":
                tr = [rnd.sample(can, 3) for _ in range(300)]
                sets_ += tr
        chunk = 12 if len(V) == 3 else 6
        for j in range(0, len(sets_), chunk):
            enc = [[[sorted(map(sorted, c[0])), sorted(c[1])] for c in s] for s in sets_[j:j + chunk]]
            out.append(dict(family=f"closure/v{len(V)}", mode="closure", V=V, sets=enc, hashseed=(j // chunk) % 2, budget_s=80))
    # (c)
    cards = [[2, 2, 2]] if tier == "quick" else [[2, 2, 2], [2, 3, 2]]
    for card in cards:
        for struct in ["generic", "indep_all", "chain", "fork", "collider", "x_indep"]:
            for op in ["check_independence", "get_independencies", "minimal_imap", "is_imap"]:
                for variant in range(3):
                    k += 1
                    if tier == "quick" and variant != (len(struct) + len(op)) % 3:
                        continue
                    out.append(dict(family=f"jpd/{op}/{struct}", mode="jpd", card=card, struct=struct, op=op, variant=variant, hashseed=k % 2,
                                    budget_s=25 if tier == "quick" else 200, max_paths=300,
                                    vars=[["X", "Y", "Z"], ["x1", "x10", "x2"], ["Gr", "G", "rG"]][k % 3]))
    return out


def run(desc, M):
    return {"iequiv": run_iequiv, "closure": run_closure, "jpd": run_jpd}[desc["mode"]](desc, M)


# ---------------------------------------------------------------------------------------- (a)


def topo_relabel(n, edges):
    """order nodes topologically; return E dict in fixed-order encoding and the permutation"""
    order = []
    es = list(edges)
    rem = set(range(n))
    while rem:
        src = sorted(v for v in rem if not any(b == v and a in rem for a, b in es))
        order.append(src[0])
        rem.remove(src[0])
    pos = {v: i for i, v in enumerate(order)}
    E = {(i, j): False for i in range(n) for j in range(i + 1, n)}
    for a, b in es:
        E[(pos[a], pos[b])] = True
    return E, pos


def dsep_table(n, edges):
    from symx import oracles as O
    E, pos = topo_relabel(n, edges)
    tab = {}
    for x in range(n):
        for y in range(x + 1, n):
            others = [v for v in range(n) if v not in (x, y)]
            for r in range(len(others) + 1):
                for Z in itertools.combinations(others, r):
                    tab[(x, y, Z)] = O.eval_bool(O.dconnected_def(E, n, pos[x], pos[y], {pos[z] for z in Z}))
    return tab


def run_iequiv(desc, M):
    from pgmpy.base import DAG
    M.declare([])
    n = desc["n"]
    names = ["a", "b", "c", "d"][:n]

    def mk(edges):
        g = DAG()
        g.add_nodes_from(names)
        g.add_edges_from([(names[u], names[v]) for u, v in edges])
        return g
    for e1 in desc["first"]:
        e1 = [tuple(e) for e in e1]
        g1 = mk(e1)
        t1 = dsep_table(n, e1) if n == 3 else None
        imm = g1.get_immoralities()
        want_imm = {tuple(sorted((names[a], names[b]))) for (a, c, b) in vstructures(n, e1)}
        M.check(set(imm) == want_imm, "get_immoralities = unshielded collider parent pairs", detail=f"{e1}: {imm} vs {want_imm}")
        for e2 in desc["second"]:
            e2 = [tuple(e) for e in e2]
            g2 = mk(e2)
            got = g1.is_iequivalent(g2)
            same_skel = {frozenset(e) for e in e1} == {frozenset(e) for e in e2}
            want = same_skel and vstructures(n, e1) == vstructures(n, e2)
            if t1 is not None:
                M.check(want == (t1 == dsep_table(n, e2)), "oracle self-check: skeleton+v-structures == same d-separations")
            M.check(bool(got) == want, "is_iequivalent iff same skeleton and same v-structures", detail=f"{e1} vs {e2}: got {got}")
            M.check(bool(g2.is_iequivalent(g1)) == bool(got), "is_iequivalent symmetric")


# ---------------------------------------------------------------------------------------- (b)


def horn_rules(V, contraction="correct"):
    """semi-graphoid axioms as Horn clauses over canonical assertions: list of (premises, conclusion).
    contraction="pgmpy-known-defect" encodes the side condition pgmpy's sg3 actually uses (Y and Z strict subsets of the
    conditioning set instead of Y|Z == it) - used ONLY to recognise the recorded known finding precisely."""
    rules = []
    T = triples(V)
    for (A, B, Cc) in T:
        for r in range(1, len(B)):
            for W in itertools.combinations(sorted(B), r):
                W = frozenset(W)
                Y = B - W
                rules.append(([canon(A, B, Cc)], canon(A, Y, Cc)))  # decomposition
                rules.append(([canon(A, B, Cc)], canon(A, Y, Cc | W)))  # weak union
                if contraction == "correct":
                    rules.append(([canon(A, Y, Cc), canon(A, W, Cc | Y)], canon(A, B, Cc)))  # contraction
    if contraction != "correct":
        for (A, W, YZ) in T:
            for (A2, Y, Z) in T:
                if A2 == A and Y < YZ and Z < YZ and Y.isdisjoint(Z):
                    rules.append(([canon(A, W, YZ), canon(A, Y, Z)], canon(A, W | Y, Z)))
    return rules


_ORACLE_CACHE = {}


def closure_oracle(V, inputs, contraction="correct"):
    """least set containing `inputs` closed under the axioms: t in closure iff Horn /\\ inputs |= t (z3, one query per t)"""
    key = (tuple(V), contraction)
    if key not in _ORACLE_CACHE:
        can = sorted({canon(*t) for t in triples(V)}, key=lambda c: (sorted(map(sorted, c[0])), sorted(c[1])))
        var = {c: z3.Bool(f"ia_{i}") for i, c in enumerate(can)}
        s = z3.Solver()
        for prem, concl in horn_rules(V, contraction):
            s.add(z3.Implies(z3.And(*[var[p] for p in prem]), var[concl]))
        _ORACLE_CACHE[key] = (can, var, s)
    can, var, s = _ORACLE_CACHE[key]
    s.push()
    for c in inputs:
        s.add(var[c])
    out = set()
    nq = 0
    for c in can:
        s.push()
        s.add(z3.Not(var[c]))
        nq += 1
        if str(s.check()) == "unsat":
            out.add(c)
        s.pop()
    s.pop()
    return out, nq


def run_closure(desc, M):
    from pgmpy.independencies import IndependenceAssertion, Independencies
    M.declare([])
    V = desc["V"]
    for enc in desc["sets"]:
        inputs = [canon(enc_c[0][0], enc_c[0][1], enc_c[1]) for enc_c in enc]
        ind = Independencies(*[[sorted(p[0][0]), sorted(p[0][1]), sorted(p[1])] for p in enc])
        want, nq = closure_oracle(V, inputs)
        M.n_obl += nq
        M.n_solver += nq
        cl = ind.closure()
        got = {canon(a.event1, a.event2, a.event3) for a in cl.get_assertions()}
        tag = " ; ".join(f"{sorted(map(sorted, c[0]))}|{sorted(c[1])}" for c in inputs)
        extra = got - want
        missing = want - got
        known = None
        if extra or missing:
            want_def, nq2 = closure_oracle(V, inputs, "pgmpy-known-defect")
            M.n_obl += nq2
            M.n_solver += nq2
            if got == want_def:
                known = desc["family"] + ":known-contraction-side-condition"
        M.check(not extra, "closure contains only statements derivable by the semi-graphoid axioms", key=known,
                detail=f"input {tag}: extra {sorted(map(str, extra))[:3]}")
        M.check(not missing, "closure contains every statement derivable by the semi-graphoid axioms", key=known,
                detail=f"input {tag}: missing {[(sorted(map(sorted, c[0])), sorted(c[1])) for c in list(missing)[:3]]}")
        M.check({canon(a.event1, a.event2, a.event3) for a in ind.get_assertions()} == set(inputs), "closure() leaves the object unchanged")
        # entails / is_equivalent agree with the oracle closure
        allc = _ORACLE_CACHE[(tuple(V), "correct")][0]
        for t in list(want)[:4] + [c for c in allc if c not in want][:4]:
            a, b = tuple(t[0])
            other = Independencies([sorted(a), sorted(b), sorted(t[1])])
            r = bool(ind.entails(other))
            k2 = known if (known and r == (t in got)) else None
            M.check(r == (t in want), "entails agrees with derivability", key=k2, detail=f"input {tag}: {sorted(a)} _|_ {sorted(b)} | {sorted(t[1])}")
        cl2 = Independencies(*[[sorted(tuple(c[0])[0]), sorted(tuple(c[0])[-1]), sorted(c[1])] for c in want])
        M.check(bool(ind.is_equivalent(cl2)), "a set is equivalent to its closure", key=known, detail=f"input {tag}")
        # history on ONE object: query, add an assertion, query again (no stale answers)
        allc2 = _ORACLE_CACHE[(tuple(V), "correct")][0]
        extra_in = [c for c in allc2 if c not in got][: 1]
        if extra_in and known is None and not extra and not missing:
            t = extra_in[0]
            a, b = tuple(t[0])
            if len(inputs) % 2:
                ind.add_assertions(IndependenceAssertion(sorted(a), sorted(b), sorted(t[1])))   # the object form of add_assertions
            else:
                ind.add_assertions([sorted(a), sorted(b), sorted(t[1])])
            want2, nq3 = closure_oracle(V, inputs + [t])
            M.n_obl += nq3
            M.n_solver += nq3
            got2 = {canon(x.event1, x.event2, x.event3) for x in ind.closure().get_assertions()}
            want2_def, _ = closure_oracle(V, inputs + [t], "pgmpy-known-defect")
            k3 = desc["family"] + ":known-contraction-side-condition" if (got2 != want2 and got2 == want2_def) else None
            M.check(got2 == want2, "closure after add_assertions reflects the new assertion (no stale result)", key=k3,
                    detail=f"input {tag} + {sorted(a)} _|_ {sorted(b)} | {sorted(t[1])}")
            M.check(bool(ind.entails(Independencies([sorted(a), sorted(b), sorted(t[1])]))), "entails sees an assertion added after an earlier query",
                    detail=f"input {tag}")
        # IndependenceAssertion equality/hash are symmetric in the two events
        for c in inputs[:1]:
            a, b = tuple(c[0])
            x1 = IndependenceAssertion(sorted(a), sorted(b), sorted(c[1]))
            x2 = IndependenceAssertion(sorted(b), sorted(a), sorted(c[1]))
            M.check(x1 == x2 and hash(x1) == hash(x2), "assertion equality/hash symmetric")
    if M.symbolic:
        M.samples.append(f"closure({desc['sets'][0]}) over {V} == least model of the Horn encoding")


# ---------------------------------------------------------------------------------------- (c)


def jpd_tables(desc, M):
    """joint over X,Y,Z as dict (x,y,z)->value from free parameters according to `struct`"""
    cx, cy, cz = desc["card"]
    struct = desc["struct"]

    def dist(name, k):
        ps = [M.sym(f"{name}_{i}", pos=True) for i in range(k - 1)]
        last = M.const(1)
        for p in ps:
            last = last - p
        M.assume(last > 0, None)
        M.mark_pos(last)
        return ps + [last]
    J = {}
    if struct == "generic":
        cells = [(x, y, z) for x in range(cx) for y in range(cy) for z in range(cz)]
        ps = dist("j", len(cells))
        J = dict(zip(cells, ps))
    elif struct == "indep_all":
        px, py, pz = dist("x", cx), dist("y", cy), dist("z", cz)
        J = {(x, y, z): px[x] * py[y] * pz[z] for x in range(cx) for y in range(cy) for z in range(cz)}
    elif struct == "chain":  # X -> Z -> Y   (X _|_ Y | Z)
        px = dist("x", cx)
        pzx = [dist(f"z{x}", cz) for x in range(cx)]
        pyz = [dist(f"y{z}", cy) for z in range(cz)]
        J = {(x, y, z): px[x] * pzx[x][z] * pyz[z][y] for x in range(cx) for y in range(cy) for z in range(cz)}
    elif struct == "fork":  # X <- Z -> Y
        pz = dist("z", cz)
        pxz = [dist(f"x{z}", cx) for z in range(cz)]
        pyz = [dist(f"y{z}", cy) for z in range(cz)]
        J = {(x, y, z): pz[z] * pxz[z][x] * pyz[z][y] for x in range(cx) for y in range(cy) for z in range(cz)}
    elif struct == "collider":  # X -> Z <- Y  (X _|_ Y marginally)
        px, py = dist("x", cx), dist("y", cy)
        pz = [[dist(f"z{x}{y}", cz) for y in range(cy)] for x in range(cx)]
        J = {(x, y, z): px[x] * py[y] * pz[x][y][z] for x in range(cx) for y in range(cy) for z in range(cz)}
    elif struct == "x_indep":  # X _|_ (Y,Z)
        px = dist("x", cx)
        cells = [(y, z) for y in range(cy) for z in range(cz)]
        pyz = dict(zip(cells, dist("yz", len(cells))))
        J = {(x, y, z): px[x] * pyz[(y, z)] for x in range(cx) for y in range(cy) for z in range(cz)}
    return J


def jpd_names(desc):
    cx, cy, cz = desc["card"]
    s = desc["struct"]
    n = []
    if s == "generic":
        n = [f"j_{i}" for i in range(cx * cy * cz - 1)]
    elif s == "indep_all":
        n = [f"x_{i}" for i in range(cx - 1)] + [f"y_{i}" for i in range(cy - 1)] + [f"z_{i}" for i in range(cz - 1)]
    elif s == "chain":
        n = [f"x_{i}" for i in range(cx - 1)] + [f"z{x}_{i}" for x in range(cx) for i in range(cz - 1)] + [f"y{z}_{i}" for z in range(cz) for i in range(cy - 1)]
    elif s == "fork":
        n = [f"z_{i}" for i in range(cz - 1)] + [f"x{z}_{i}" for z in range(cz) for i in range(cx - 1)] + [f"y{z}_{i}" for z in range(cz) for i in range(cy - 1)]
    elif s == "collider":
        n = [f"x_{i}" for i in range(cx - 1)] + [f"y_{i}" for i in range(cy - 1)] + [f"z{x}{y}_{i}" for x in range(cx) for y in range(cy) for i in range(cz - 1)]
    elif s == "x_indep":
        n = [f"x_{i}" for i in range(cx - 1)] + [f"yz_{i}" for i in range(cy * cz - 1)]
    return n


VARS = ["X", "Y", "Z"]


def marg(J, card, keep, fixed):
    """sum of J over cells matching fixed {varindex: state}"""
    t = 0
    for cell, v in J.items():
        if all(cell[i] == s for i, s in fixed.items()):
            t = t + v
    return t


def ci_residuals(J, card, a, b, cond):
    """list of P(a,b,c)P(c) - P(a,c)P(b,c) over all states (a, b single variable indices, cond list of indices)"""
    out = []
    for sa in range(card[a]):
        for sb in range(card[b]):
            for sc in itertools.product(*[range(card[c]) for c in cond]):
                fc = dict(zip(cond, sc))
                pabc = marg(J, card, None, {a: sa, b: sb, **fc})
                pc = marg(J, card, None, fc)
                pac = marg(J, card, None, {a: sa, **fc})
                pbc = marg(J, card, None, {b: sb, **fc})
                out.append((pabc * pc - pac * pbc, pac * pbc))
    return out


def check_ci(M, J, card, a, b, cond, got, tag, key=None):
    res = ci_residuals(J, card, a, b, cond)
    if got:
        for r, ref in res:
            # True => within numpy's allclose band of the code's own comparison (atol 1e-8 + rtol 1e-5*|ref|), slack factor 2
            M.le(abs(r) if not M.symbolic else abs(core.lift(r)), (ref if not M.symbolic else core.lift(ref)) * M.const("1/50000") + M.const("1/50000000"),
                 f"{tag}: reported independence holds numerically", key=key)
    else:
        if M.symbolic:
            M.check(core.SymBool(z3.Or(*[core.zbool(core.lift(r) != 0) for r, _ in res])), f"{tag}: reported dependence means some product differs")
        else:
            M.check(any(abs(float(r)) > 0 for r, _ in res), f"{tag}: reported dependence means some product differs")


def run_jpd(desc, M):
    from pgmpy.factors.discrete import JointProbabilityDistribution as JPD
    from pgmpy.factors.discrete import TabularCPD
    from pgmpy.models import BayesianNetwork
    global VARS
    VARS = list(desc.get("vars", ["X", "Y", "Z"]))   # names where one is a substring of another are part of the rotation
    card = desc["card"]
    M.declare(jpd_names(desc))
    J = jpd_tables(desc, M)
    order = [(0, 1, 2), (2, 0, 1), (1, 2, 0)][desc["variant"]]  # axis order of the JPD object
    vars_ = [VARS[i] for i in order]
    vals = []
    for st in itertools.product(*[range(card[i]) for i in order]):
        cell = [None] * 3
        for i, s in zip(order, st):
            cell[i] = s
        vals.append(M.impl(J[tuple(cell)]))
    jpd = JPD(vars_, [card[i] for i in order], vals)
    snap = list(jpd.values.ravel())
    op = desc["op"]
    if op == "check_independence":
        for a, b, cond in [(0, 1, [2]), (0, 1, []), (0, 2, [1]), (1, 2, []), (1, 2, [0])][desc["variant"]::3] + [(0, 1, [2])][:1]:
            got = jpd.check_independence([VARS[a]], [VARS[b]], [VARS[c] for c in cond] or None, condition_random_variable=bool(cond))
            M.check(isinstance(got, (bool, np.bool_)), "check_independence returns bool")
            check_ci(M, J, card, a, b, cond, bool(got), f"check_independence({VARS[a]},{VARS[b]}|{[VARS[c] for c in cond]})")
            if M.symbolic:
                M.samples.append(f"{desc['struct']}: {VARS[a]} _|_ {VARS[b]} | {[VARS[c] for c in cond]} -> {got}")
        # context form: event3 = [(variable, state)] conditions on a VALUE; afterwards the object must answer as before
        cz = card[2]
        for zs in range(cz):
            got_ctx = jpd.check_independence([VARS[0]], [VARS[1]], [(VARS[2], zs)])
            res = []
            for sx in range(card[0]):
                for sy in range(card[1]):
                    pxyz = J[(sx, sy, zs)]
                    pz = marg(J, card, None, {2: zs})
                    pxz = marg(J, card, None, {0: sx, 2: zs})
                    pyz = marg(J, card, None, {1: sy, 2: zs})
                    res.append((pxyz * pz - pxz * pyz, pxz * pyz))
            if got_ctx:
                for r, ref in res:
                    rr = r / (marg(J, card, None, {2: zs}) * marg(J, card, None, {2: zs}))
                    M.le(abs(rr) if not M.symbolic else abs(core.lift(rr)), M.const("1/10000"), "context independence X _|_ Y | Z=z holds numerically")
            else:
                if M.symbolic:
                    M.check(core.SymBool(z3.Or(*[core.zbool(core.lift(r) != 0) for r, _ in res])), "reported context dependence means some product differs")
                else:
                    M.check(any(abs(float(r)) > 0 for r, _ in res), "reported context dependence means some product differs")
            M.check(list(jpd.variables) == vars_ and all(a is b or (not M.symbolic and a == b) for a, b in zip(jpd.values.ravel(), snap)),
                    "a context query leaves the distribution object unchanged", detail=f"variables now {jpd.variables}")
        got_after = jpd.check_independence([VARS[0]], [VARS[1]], [VARS[2]], condition_random_variable=True)
        check_ci(M, J, card, 0, 1, [2], bool(got_after), "check_independence after a context query")
    elif op == "get_independencies":
        ind = jpd.get_independencies()
        got = {frozenset((tuple(a.event1)[0], tuple(a.event2)[0])) for a in ind.get_assertions()}
        for a, b in itertools.combinations(range(3), 2):
            check_ci(M, J, card, a, b, [], frozenset((VARS[a], VARS[b])) in got, f"get_independencies {VARS[a]},{VARS[b]}")
    elif op == "minimal_imap":
        ordr = [[VARS[0], VARS[1], VARS[2]], [VARS[2], VARS[0], VARS[1]], [VARS[1], VARS[2], VARS[0]]][desc["variant"]]
        G = jpd.minimal_imap(ordr)
        # returned graph must only encode independencies that hold: v _|_ (predecessors - parents) | parents
        for i, v in enumerate(ordr):
            preds = ordr[:i]
            pa = [p for p in preds if G.has_edge(p, v)] if v in G.nodes() else []
            M.check(all(p in preds for p in (G.predecessors(v) if v in G.nodes() else [])), "minimal_imap: edges respect the order")
            # recognise the recorded known finding precisely: no PROPER subset of the predecessors passes the code's own
            # test, and the implementation then adds no parents at all (instead of all predecessors)
            known = None
            if preds and not pa:
                proper = [s for r in range(len(preds)) for s in itertools.combinations(preds, r)]
                if not any(jpd.check_independence([v], set(preds) - set(s), s, True) for s in proper):
                    known = "jpd/minimal_imap:known-no-parents-when-no-proper-subset-separates"
            for w in preds:
                if w in pa:
                    continue
                check_ci(M, J, card, VARS.index(v), VARS.index(w), [VARS.index(p) for p in pa], True,
                         f"minimal_imap(order={ordr}): encoded independence {v} _|_ {w} | {pa}", key=known)
    elif op == "is_imap":
        # product-form BN built from the same symbols: X -> Z -> Y factorisation of J when struct == chain, else a wrong/right candidate
        bn = BayesianNetwork([(VARS[0], VARS[2]), (VARS[2], VARS[1])])
        cx, cy, cz = card
        px = [marg(J, card, None, {0: x}) for x in range(cx)]
        pzx = [[marg(J, card, None, {0: x, 2: z}) / px[x] for x in range(cx)] for z in range(cz)]
        pz = [marg(J, card, None, {2: z}) for z in range(cz)]
        pyz = [[marg(J, card, None, {1: y, 2: z}) / pz[z] for z in range(cz)] for y in range(cy)]
        bn.add_cpds(TabularCPD(VARS[0], cx, [[M.impl(p)] for p in px]),
                    TabularCPD(VARS[2], cz, M.impl_table(pzx), evidence=[VARS[0]], evidence_card=[cx]),
                    TabularCPD(VARS[1], cy, M.impl_table(pyz), evidence=[VARS[2]], evidence_card=[cz]))
        got = jpd.is_imap(bn)
        # the chain factorisation reproduces J iff X _|_ Y | Z
        check_ci(M, J, card, 0, 1, [2], bool(got), "is_imap(X->Z->Y)")
    M.check(all(a is b or (not M.symbolic and a == b) for a, b in zip(jpd.values.ravel(), snap)), "JPD values unchanged by the query")

"""C14 - model conversions preserve the distribution and produce valid targets (DESIGN.md 5/C14)."""
import itertools

import networkx as nx
import numpy as np

from . import common as C
from .c03 import MNS, build_mn, mn_names
from .c02 import MN_EXTRA

PROPERTY = "C14"
LEVEL = "model_checking"
BOUNDS = {
    "quick": "BN <=4 nodes / MN / FG <=4 variables (5 for triangulation, structure only), cards<=3, all factor entries symbolic (unconstrained "
             "sign for BN->MN, >0 elsewhere), factor lists with unary, repeated-scope and possibly-equal factors (equality is a feasible "
             "branch of the hash model), heuristics H1-H6 and explicit orders, hash seeds 0,1",
    "thorough": "more cardinalities and duplicate patterns, hash seeds 0-5",
}
ASSUMPTIONS = ["exact real arithmetic", "hash model for DiscreteFactor.__hash__: equal bytes iff all entries equal (accidental collisions outside)"]

MN_DUP = {
    "dup_pair": (["A", "B", "C"], [["A", "B"], ["A", "B"], ["B", "C"]]),
    "dup_unary": (["A", "B"], [["A", "B"], ["B"], ["B"]]),
    "dup_perm": (["A", "B", "C"], [["A", "B"], ["B", "A"], ["C", "B"]]),
    "unary_only": (["A", "B"], [["A", "B"], ["A"], ["B"]]),
    "tri_clique": (["A", "B", "C"], [["A", "B", "C"], ["A", "B"]]),
}
# models whose clique tree has sepsets containing a single-state variable: (nodes, scopes, cardinalities)
MN_CARD1 = {
    "card1sep": (["A", "B", "C", "D", "X"], [["A", "B", "X"], ["A", "C", "X"], ["A", "D"]], dict(A=2, B=2, C=2, D=2, X=1)),
    "card1sep2": (["X", "D", "C", "B", "A"], [["D", "A"], ["X", "A", "B"], ["C", "X", "A"]], dict(A=2, B=2, C=2, D=2, X=1)),
    "card1chain": (["A", "B", "C", "X"], [["A", "X"], ["X", "B"], ["B", "C"], ["A", "B"]], dict(A=2, B=2, C=2, X=1)),
}
GRAPHS5 = {
    "cycle5": [("A", "B"), ("B", "C"), ("C", "D"), ("D", "E"), ("E", "A")],
    "cycle4": [("A", "B"), ("B", "C"), ("C", "D"), ("D", "A")],
    "cycle4_tail": [("A", "B"), ("B", "C"), ("C", "D"), ("D", "A"), ("D", "E")],
    "chordal": [("A", "B"), ("B", "C"), ("C", "A"), ("C", "D")],
    "wheel": [("A", "B"), ("B", "C"), ("C", "D"), ("D", "A"), ("E", "A"), ("E", "B"), ("E", "C"), ("E", "D")],
    "two_cycles": [("A", "B"), ("B", "C"), ("C", "D"), ("D", "A"), ("C", "E"), ("E", "D")],
    "cycle4_plus_edge": [("A", "B"), ("B", "C"), ("C", "D"), ("D", "A"), ("E", "F")],
    "cycle4_plus_tree": [("A", "B"), ("B", "C"), ("C", "D"), ("D", "A"), ("E", "F"), ("F", "G")],
    "two_trees": [("A", "B"), ("C", "D"), ("D", "E")],
}


def scenarios(tier, seed):
    out = []
    k = 0
    nh = 2 if tier == "quick" else 6

    def add(**kw):
        nonlocal k
        k += 1
        kw.setdefault("states", C.STATE_STYLES[k % len(C.STATE_STYLES)])
        kw.setdefault("hashseed", k % nh)
        kw.setdefault("budget_s", 40)
        out.append(kw)
    for sname in ["single", "pair", "indep2", "chain3", "fork3", "collider3", "full3", "iso3", "diamond", "collchild", "twopairs", "threepar"]:
        nodes, parents = C.SHAPES[sname]
        for card in C.card_options(nodes, tier)[:2]:
            for conv in ["to_markov_model", "to_junction_tree"]:
                if conv == "to_junction_tree" and sname in ("indep2", "iso3", "twopairs"):
                    continue
                add(family=f"bn/{conv}", kind="bn", conv=conv, shape=sname, nodes=nodes, parents=parents, card=card,
                    names=list(C.NAME_STYLES)[k % 4] if k % 3 == 0 else "str")
    for mname, (nodes, scopes) in {**MNS, **MN_EXTRA, **MN_DUP}.items():
        for card in C.card_options(nodes, tier)[:2]:
            for conv in ["to_factor_graph", "to_junction_tree", "fg_roundtrip", "fg_to_junction_tree", "partition"]:
                add(family=f"mn/{conv}/{mname}", kind="mn", conv=conv, model=mname, nodes=nodes, scopes=scopes, card=card)
    for mname, (nodes, scopes, card) in MN_CARD1.items():
        for conv in ["to_junction_tree", "fg_to_junction_tree"]:
            for hs in range(nh):
                for st in ("default", "str"):
                    add(family=f"mn/{conv}/{mname}", kind="mn", conv=conv, model=mname, nodes=nodes, scopes=scopes, card=card, hashseed=hs, states=st,
                        fixed_factors=[0] if len(scopes) > 2 else [], fixed_seed=hs + 1)
    # chordless 5-cycle with pairwise factors: fill-in cliques contain variables that none of their assigned factors mentions
    cyc_nodes = ["A", "B", "C", "D", "E"]
    cyc_scopes = [["A", "B"], ["B", "C"], ["C", "D"], ["D", "E"], ["E", "A"]]
    for ci, ccard in enumerate([dict(A=2, B=2, C=2, D=2, E=2), dict(A=3, B=2, C=3, D=2, E=2)]):
        for conv in ["to_junction_tree", "fg_to_junction_tree"]:
            for st in C.STATE_STYLES[1:]:
                for hs in range(nh):
                    if tier == "quick" and (k + hs) % 2:
                        k += 1
                        continue
                    add(family=f"mn/{conv}/mcycle5", kind="mn", conv=conv, model="mcycle5", nodes=cyc_nodes, scopes=cyc_scopes, card=ccard, hashseed=hs,
                        states=st, fixed_factors=[0, 2, 3], fixed_seed=k + 1)
    # every assignment of names to the roles of card1sep (ties between sepset sizes are broken by clique enumeration order)
    roles, rscopes, rcard = MN_CARD1["card1sep"]
    perms = list(itertools.permutations("ABCDE"))
    for pi, perm in enumerate(perms):
        if tier == "quick" and pi % 4 != seed % 4:
            continue
        ren = dict(zip(roles, perm))
        add(family="mn/to_junction_tree/card1sep_perm", kind="mn", conv="to_junction_tree", model=f"card1sep_perm{pi}", nodes=sorted(perm),
            scopes=[[ren[v] for v in s] for s in rscopes], card={ren[v]: k for v, k in rcard.items()}, hashseed=pi % nh, states="default",
            fixed_factors=[0], fixed_seed=pi + 1)
    for gname, edges in GRAPHS5.items():
        for heur in ["H1", "H2", "H3", "H4", "H5", "H6", "order", "order_rev"]:
            for inplace in (False, True):
                add(family="mn/triangulate", kind="tri", graph=gname, edges=edges, heur=heur, inplace=inplace, card_pat=k % 3)
    # a non-chordal part next to a node without edges (a valid Markov network: the isolated variable carries a unary factor)
    for heur in ["H1", "H3", "H6", "order"]:
        for inplace in (False, True):
            add(family="mn/triangulate", kind="tri", graph="cycle4+isolated", edges=[["a", "b"], ["b", "c"], ["c", "d"], ["d", "a"]], isolated=["e"], heur=heur,
                inplace=inplace, card_pat=k % 3)
    return out


def is_chordal_def(edges, nodes):
    """definition: every cycle of length >= 4 has a chord (checked directly on simple cycles)"""
    adj = {v: set() for v in nodes}
    for a, b in edges:
        adj[a].add(b)
        adj[b].add(a)
    for r in range(4, len(nodes) + 1):
        for cyc in itertools.permutations(nodes, r):
            if cyc[0] != min(cyc):
                continue
            if not all(cyc[(i + 1) % r] in adj[cyc[i]] for i in range(r)):
                continue
            chord = any(cyc[j] in adj[cyc[i]] for i in range(r) for j in range(i + 2, r) if not (i == 0 and j == r - 1))
            if not chord:
                return False
    return True


def read(desc, phi, a, nm=None):
    nm = nm or {v: v for v in desc["nodes"]}
    inv = {nm[v]: v for v in desc["nodes"]}
    idx = tuple(phi.name_to_no[x][C.sname(desc, inv[x], a[inv[x]])] for x in phi.variables)
    return phi.values[idx] if isinstance(phi.values, np.ndarray) else phi.values


def check_product(desc, M, factors, val, tag, nm=None):
    """product over `factors` (list of DiscreteFactor) equals val(assignment) for every named assignment"""
    nm = nm or {v: v for v in desc["nodes"]}
    inv = {nm[v]: v for v in desc["nodes"]}
    for f in factors:
        for x in f.variables:
            M.check(list(f.state_names[x]) == C.expected_state_names(desc, inv[x]), f"{tag}: state names kept", detail=f"{x}: {f.state_names[x]}")
    for a in C.assignments(desc, desc["nodes"]):
        t = M.const(1)
        for f in factors:
            t = t * read(desc, f, a, nm)
        M.eq(t, val(a), f"{tag}: product of target factors equals product of source factors")


def check_junction_tree(desc, M, jt, source_scopes, nm=None):
    nm = nm or {v: v for v in desc["nodes"]}
    cliques = list(jt.nodes())
    M.check(nx.is_connected(jt) if len(cliques) > 0 else False, "junction tree connected")
    M.check(jt.number_of_edges() == len(cliques) - 1, "junction tree is a tree", detail=f"{len(cliques)} cliques {jt.number_of_edges()} edges")
    for s in source_scopes:
        M.check(any(set(nm[v] for v in s) <= set(c) for c in cliques), "cliques cover every factor scope", detail=str(s))
    M.check(set().union(*[set(c) for c in cliques]) == {nm[v] for v in desc["nodes"]}, "cliques cover all variables")
    # running intersection: for every variable the cliques containing it form a connected subtree
    for v in desc["nodes"]:
        sub = [c for c in cliques if nm[v] in c]
        M.check(len(sub) > 0 and nx.is_connected(jt.subgraph(sub)), "running intersection property", detail=str(v))
    M.check(len(jt.get_factors()) == len(cliques), "one potential per clique")
    try:
        M.check(jt.check_model() is True, "junction tree check_model")
    except ValueError as e:
        M.fail("junction tree check_model", str(e))


def run(desc, M):
    kind, conv = desc["kind"], desc.get("conv")
    if kind == "tri":
        return run_tri(desc, M)
    if kind == "bn":
        M.declare(C.sym_names(desc))
        tabs = C.make_tables(desc, M, positive=False)
        model, nm = C.build_bn(desc, M, tabs)
        val = lambda a: C.joint_entry(desc, tabs, a)  # noqa
        nodes, parents = desc["nodes"], desc["parents"]
        if conv == "to_markov_model":
            mn = model.to_markov_model()
            want = set()
            for v in nodes:
                for p in parents[v]:
                    want.add(frozenset((nm[p], nm[v])))
                for p, q in itertools.combinations(parents[v], 2):
                    want.add(frozenset((nm[p], nm[q])))
            M.check({frozenset(e) for e in mn.edges()} == want, "moral graph edges", detail=str(list(mn.edges())))
            M.check(set(mn.nodes()) == {nm[v] for v in nodes}, "moral graph nodes")
            M.check(mn.check_model() is True, "target check_model")
            M.check(len(mn.get_factors()) == len(nodes), "one factor per CPD", detail=str(len(mn.get_factors())))
            check_product(desc, M, mn.get_factors(), val, "BN->MN", nm)
            M.eq(mn.get_partition_function(), 1, "BN->MN partition function is 1")
        else:
            jt = model.to_junction_tree()
            check_junction_tree(desc, M, jt, [[v] + parents[v] for v in nodes], nm)
            check_product(desc, M, jt.get_factors(), val, "BN->JT", nm)
        return
    M.declare(mn_names(desc))
    mn, val, syms = build_mn(desc, M, positive=True)
    nodes = desc["nodes"]
    Z = None
    for a in C.assignments(desc, nodes):
        Z = val(a) if Z is None else Z + val(a)
    nfac = len(desc["scopes"])
    src = list(mn.get_factors())
    snap = [(list(f.variables), list(f.values.ravel())) for f in src]
    if conv == "partition":
        M.eq(mn.get_partition_function(), Z, "MN partition function")
    elif conv == "to_factor_graph":
        fg = mn.to_factor_graph()
        M.check(len(fg.get_factors()) == nfac, "MN->FG keeps every factor", detail=f"{len(fg.get_factors())} of {nfac}")
        check_product(desc, M, fg.get_factors(), val, "MN->FG")
        try:
            ok = fg.check_model()
        except ValueError as e:
            ok = str(e)
        M.check(ok is True, "MN->FG target check_model", detail=str(ok))
        if ok is True:
            M.eq(fg.get_partition_function(), Z, "MN->FG partition function")
    elif conv == "fg_roundtrip":
        from pgmpy.models import FactorGraph
        fg = FactorGraph()
        fg.add_nodes_from(nodes)
        for f in src:
            fg.add_node(f)
            fg.add_edges_from([(v, f) for v in f.variables])
        fg.add_factors(*src)
        M.check(fg.check_model() is True, "FG check_model")
        M.eq(fg.get_partition_function(), Z, "FG partition function")
        mm = fg.to_markov_model()
        M.check(len(mm.get_factors()) == nfac, "FG->MN keeps every factor", detail=f"{len(mm.get_factors())} of {nfac}")
        check_product(desc, M, mm.get_factors(), val, "FG->MN")
        want = set()
        for s in desc["scopes"]:
            for p, q in itertools.combinations(s, 2):
                want.add(frozenset((p, q)))
        M.check({frozenset(e) for e in mm.edges()} == want and set(mm.nodes()) == set(nodes), "FG->MN interaction graph")
        M.eq(mm.get_partition_function(), Z, "FG->MN partition function")
    elif conv in ("to_junction_tree", "fg_to_junction_tree"):
        if not nx.is_connected(nx.Graph(list(mn.edges())) if mn.number_of_edges() else nx.Graph()) and len(nodes) > 1:
            return
        if conv == "fg_to_junction_tree":
            from pgmpy.models import FactorGraph
            fg = FactorGraph()
            fg.add_nodes_from(nodes)
            for f in src:
                fg.add_node(f)
                fg.add_edges_from([(v, f) for v in f.variables])
            fg.add_factors(*src)
            jt = fg.to_junction_tree()
        else:
            jt = mn.to_junction_tree()
        check_junction_tree(desc, M, jt, desc["scopes"])
        check_product(desc, M, jt.get_factors(), val, "->JT")
        M.eq(jt.get_partition_function(), Z, "->JT partition function")
    for f, (vs, vals) in zip(src, snap):
        M.check(list(f.variables) == vs and all(x is y or (not M.symbolic and x == y) for x, y in zip(f.values.ravel(), vals)),
                "source factors untouched by conversion")


def run_tri(desc, M):
    from pgmpy.factors.discrete import DiscreteFactor
    from pgmpy.models import MarkovNetwork
    M.declare([])
    edges = [tuple(e) for e in desc["edges"]]
    nodes = sorted({v for e in edges for v in e} | set(desc.get("isolated", [])))
    card = {v: [2, 3, 2, 2, 3][(i + desc["card_pat"]) % 5] for i, v in enumerate(nodes)}
    mn = MarkovNetwork(edges)
    for a, b in edges:
        mn.add_factors(DiscreteFactor([a, b], [card[a], card[b]], np.ones(card[a] * card[b])))
    for v in desc.get("isolated", []):
        mn.add_node(v)
        mn.add_factors(DiscreteFactor([v], [card[v]], np.ones(card[v])))
    heur = desc["heur"]
    kw = {}
    if heur == "order":
        kw = dict(order=list(nodes))
    elif heur == "order_rev":
        kw = dict(order=list(nodes)[::-1])
    else:
        kw = dict(heuristic=heur)
    before = {frozenset(e) for e in mn.edges()}
    res = mn.triangulate(inplace=desc["inplace"], **kw)
    tri = mn if desc["inplace"] else res
    te = {frozenset(e) for e in tri.edges()}
    M.check(before <= te, "triangulated graph contains the original edges")
    M.check(set(tri.nodes()) == set(nodes), "triangulated graph keeps the nodes")
    M.check(is_chordal_def([tuple(e) for e in te], nodes), "triangulated graph is chordal (every cycle >= 4 has a chord)", detail=str(sorted(map(sorted, te))))
    M.check(tri.is_triangulated(), "is_triangulated agrees")
    if not desc["inplace"]:
        M.check({frozenset(e) for e in mn.edges()} == before, "triangulate(inplace=False) leaves the model")
    # is_triangulated on the original agrees with the definition
    mn2 = MarkovNetwork(edges)
    M.check(mn2.is_triangulated() == is_chordal_def(edges, nodes), "is_triangulated matches the definition on the source graph")

"""C10 - structure scores equal their published definitions (DESIGN.md 5/C10; partial)."""
import itertools
import math

import numpy as np

from symx import core, stubs
from .c11 import make_score, score_names, total

PROPERTY = "C10"
LEVEL = "model_checking"
BOUNDS = {
    "quick": "(a) decomposition/caching: StructureScore.score, ScoreCache.score/local_score, BDs structure prior, metrics.structure_score with one symbolic "
             "real per (variable, parent set), all DAGs on 3 nodes; (b) the real K2/BDeu/BIC/AIC local_score bodies on a SYMBOLIC count table (child with "
             "0-2 parents, cards 2-3, every support pattern with <=1 unobserved parent configuration and <=1 declared-but-unobserved child state), "
             "log-gamma and log as uninterpreted functions, symbolic equivalent sample size; score equivalence X->Y vs Y->X from one symbolic joint table",
    "thorough": "more cardinalities/support patterns, 3-variable equivalence pairs",
}
ASSUMPTIONS = ["gammaln/lgamma/log are uninterpreted functions (numeric values of the special functions are outside); the axiom lgamma(1) = 0 is added",
               "state_counts is replaced by a symbolic count table in symbolic runs; the same scenario is re-run on a real pandas frame with integer "
               "counts and the real special functions (concrete twin) - this validates the stub against pandas' counting",
               "BDs local score is compared with Scutari's definition (imaginary sample spread over the observed parent configurations only)"]

SCORES = ["K2Score", "BDeuScore", "BDsScore", "BicScore", "AICScore"]


def install_stubs(desc):
    if desc["mode"] not in ("closed", "equiv"):
        return
    SS = stubs.patch_module_np("pgmpy.estimators.StructureScore")
    stubs.patch_attr("pgmpy.estimators.StructureScore", "np", _NPS())
    stubs.patch_attr("pgmpy.estimators.StructureScore", "gammaln", _gammaln)
    stubs.patch_attr("pgmpy.estimators.StructureScore", "lgamma", lambda x: _uf("lgam", x))
    stubs.patch_attr("pgmpy.estimators.StructureScore", "log", lambda x: _uf("ln", x))


def _uf(name, x):
    if isinstance(x, core.SymReal) and not x.is_const():
        stubs._hit(f"uninterpreted {name}")
        return core.CTX.uf(name, x)
    v = float(x.const()) if isinstance(x, core.SymReal) else float(x)
    # constants go through the same uninterpreted symbol so that code and oracle agree on them syntactically
    return core.CTX.uf(name, core.lift(x))


def _gammaln(a, out=None):
    a = np.asarray(a, dtype=object)
    if a.ndim == 0:
        return _uf("lgam", a[()])
    res = out if out is not None else np.empty(a.shape, dtype=object)
    for idx, v in np.ndenumerate(a):
        res[idx] = _uf("lgam", v)
    return res


class _NPS:
    def __getattr__(self, k):
        return getattr(np, k)

    def zeros_like(self, a, dtype=None):
        r = np.empty(np.shape(a), dtype=object)
        r.fill(core.lift(0))
        return r

    def sum(self, a, axis=None, dtype=None):
        return np.sum(np.asarray(a, dtype=object), axis=axis)

    def log(self, a, out=None, where=True):
        a = np.asarray(a, dtype=object)
        res = out if out is not None else np.empty(a.shape, dtype=object)
        w = np.broadcast_to(np.asarray(where, dtype=object), a.shape)
        for idx, v in np.ndenumerate(a):
            if bool(w[idx]):
                res[idx] = _uf("ln", v)
        return res

    def asarray(self, a, dtype=None):
        return np.asarray(a, dtype=object if dtype in (None, float) else dtype)


def scenarios(tier, seed):
    out = []
    k = 0
    names = ["a", "b", "c"]
    from .c11 import all_dags
    dags = all_dags(names)
    for i in range(0, len(dags), 5):
        out.append(dict(family="decompose", mode="decompose", names=names, dags=dags[i:i + 5], hashseed=(i // 5) % 2))
    for ms in (1, 2, 3, 5):
        for order in range(3):
            out.append(dict(family="cache-sequences", mode="cacheseq", names=names, max_size=ms, order=order, hashseed=order % 2))
    shapes = [([], {}), (["A"], {}), (["B", "A"], {})]
    for pa, _ in shapes:
        cards = [dict(C=2, A=2, B=2), dict(C=3, A=2, B=2), dict(C=2, A=3, B=2)]
        if tier == "thorough":
            cards.append(dict(C=3, A=3, B=2))
        for card in cards:
            q = int(np.prod([card[p] for p in pa])) if pa else 1
            col_opts = [None] + ([0, q - 1] if pa else [])
            row_opts = [None, card["C"] - 1]
            for mc in col_opts:
                for mr in row_opts:
                    for sc in SCORES:
                        k += 1
                        if tier == "quick" and len(pa) == 2 and (mc is None) == (mr is None) and sc in ("AICScore",):
                            continue
                        out.append(dict(family=f"closed/{sc}", mode="closed", score=sc, pa=pa, card=card, missing_col=mc, missing_row=mr,
                                        hashseed=k % 2, budget_s=60, max_paths=600))
    for sc in ["BDeuScore", "BicScore", "AICScore", "K2Score"]:
        for card in [dict(X=2, Y=2), dict(X=2, Y=3)]:
            out.append(dict(family=f"equiv/{sc}", mode="equiv", score=sc, card=card, hashseed=0, budget_s=60, max_paths=300))
    return out


def run(desc, M):
    return {"decompose": run_decompose, "closed": run_closed, "equiv": run_equiv, "cacheseq": run_cacheseq}[desc["mode"]](desc, M)


def run_cacheseq(desc, M):
    """every call sequence through a small LRU cache (evictions, re-insertions, hits after overflow) returns the base scorer's value"""
    import importlib
    import pandas as pd
    ScoreCache = importlib.import_module("pgmpy.estimators.ScoreCache")
    names = desc["names"]
    M.declare(score_names(names))
    S = {}
    keys = []
    for v in names:
        others = [x for x in names if x != v]
        for r in range(len(others) + 1):
            for ps in itertools.combinations(others, r):
                S[(v, frozenset(ps))] = M.sym(f"s_{v}_{''.join(ps)}")
                keys.append((v, list(ps)))
    data = pd.DataFrame([[0] * len(names), [1] * len(names)], columns=names)
    base = make_score(M, names, S, data)
    cached = ScoreCache.ScoreCache(base, data, max_size=desc["max_size"])
    o = desc["order"]
    seq = keys + keys[::-1] + keys[o::2] + keys[:3] * 2 + keys[::3] + keys
    if o == 1:
        seq = keys[::2] + keys[::2] + keys[1::2] + keys[::2] + keys
    for i, (v, pa) in enumerate(seq):
        M.eq(cached.local_score(v, pa), S[(v, frozenset(pa))], "cached local score equals the base scorer's on every call of a sequence that overflows the cache",
             detail=f"call {i}: {v}|{pa} max_size={desc['max_size']}")


def run_decompose(desc, M):
    import pandas as pd
    from pgmpy.base import DAG
    import importlib
    from pgmpy.estimators import BDsScore
    ScoreCache = importlib.import_module("pgmpy.estimators.ScoreCache")
    from pgmpy.metrics import structure_score  # noqa
    names = desc["names"]
    M.declare(score_names(names))
    S = {}
    for v in names:
        others = [x for x in names if x != v]
        for r in range(len(others) + 1):
            for ps in itertools.combinations(others, r):
                S[(v, frozenset(ps))] = M.sym(f"s_{v}_{''.join(ps)}")
    data = pd.DataFrame([[0] * len(names), [1] * len(names)], columns=names)
    base = make_score(M, names, S, data)

    class TableBDs(BDsScore):
        def local_score(self, variable, parents):
            return M.impl(S[(variable, frozenset(parents))])
    bds = TableBDs(data)
    cached = ScoreCache.ScoreCache(base, data)
    cached_bds = ScoreCache.ScoreCache(bds, data)
    for es in desc["dags"]:
        g = DAG()
        g.add_nodes_from(names)
        g.add_edges_from(es)
        want = total(S, names, set(map(tuple, es)))
        M.eq(base.score(g), want, "score(G) = sum of local scores (+ uniform prior 0)", detail=str(es))
        M.eq(cached.score(g), want, "cached score equals uncached score", detail=str(es))
        M.eq(cached.score(g), want, "cached score is stable when asked twice", detail=str(es))
        prior = -(len(es) + len(names) * (len(names) - 1) / 2.0) * math.log(2.0)
        M.eq(bds.score(g), want + M.const(prior) if M.symbolic else float(want) + prior, "BDs score = sum of local scores + marginal-uniform structure prior", detail=str(es))
        M.eq(cached_bds.score(g), bds.score(g), "cached BDs score equals uncached BDs score (structure prior included)", detail=str(es))
        for v in names:
            pa = [p for p, c in es if c == v]
            M.eq(cached.local_score(v, pa), S[(v, frozenset(pa))], "cached local score equals the base scorer's")
            M.eq(cached.local_score(v, pa[::-1]), S[(v, frozenset(pa))], "cached local score independent of the listed parent order")
        for op in ("+", "-", "flip"):
            M.eq(cached_bds.structure_prior_ratio(op), bds.structure_prior_ratio(op), "cached scorer reports the base scorer's prior ratio")


def nominal_counts(desc, M):
    """present cells of the count table: rows = observed child states, cols = observed parent configurations"""
    card, pa = desc["card"], desc["pa"]
    r = card["C"]
    q = int(np.prod([card[p] for p in pa])) if pa else 1
    rows = [i for i in range(r) if i != desc["missing_row"]]
    cols = [j for j in range(q) if j != desc["missing_col"]]
    return r, q, rows, cols


def run_closed(desc, M):
    import pandas as pd
    import importlib
    SS = importlib.import_module("pgmpy.estimators.StructureScore")
    card, pa = desc["card"], desc["pa"]
    r, q, rows, cols = nominal_counts(desc, M)
    names = [f"n_{i}_{j}" for i in rows for j in cols] + ["ess"]
    M.declare(names, extra=80)
    if M.symbolic:
        core.CTX.assume(core.CTX.uf("lgam", core.lift(1)).e == 0, "lgamma(1) = 0")
        core.CTX.assume(core.CTX.uf("lgam", core.lift(2)).e == 0, "lgamma(2) = 0")
    # symbolic counts; every present row/column has a positive total (otherwise it would not be present)
    N = {}
    for i in rows:
        for j in cols:
            N[(i, j)] = M.sym(f"n_{i}_{j}", nonneg=True)
    ess = M.sym("ess", pos=True)
    if not M.symbolic:
        # concrete twin: integer counts; zero cells allowed but each present row/column must be observed at least once
        N = {k: int(math.ceil(float(v))) for k, v in N.items()}
        for i in rows:
            if sum(N[(i, j)] for j in cols) == 0:
                N[(i, cols[0])] = 1
        for j in cols:
            if sum(N[(i, j)] for i in rows) == 0:
                N[(rows[0], j)] = 1
        ess = float(ess)
    else:
        for i in rows:
            M.assume(sum((N[(i, j)] for j in cols), M.const(0)) > 0, "every listed child state occurs")
        for j in cols:
            t = sum((N[(i, j)] for i in rows), M.const(0))
            M.assume(t > 0, "every listed parent configuration occurs")
    # nominal frame (defines variables, state names, len(data)); in concrete mode it realises the integer counts exactly
    cfgs = list(itertools.product(*[range(card[p]) for p in pa])) if pa else [()]
    recs = []
    for i in rows:
        for j in cols:
            mult = N[(i, j)] if not M.symbolic else 2
            for _ in range(int(mult)):
                recs.append(dict(C=i, **{p: cfgs[j][t] for t, p in enumerate(pa)}))
    data = pd.DataFrame(recs, columns=["C"] + pa)
    state_names = {"C": list(range(r)), **{p: list(range(card[p])) for p in pa}}
    cls = getattr(SS, desc["score"])
    kw = dict(state_names=state_names)
    if desc["score"] in ("BDeuScore", "BDsScore"):
        kw["equivalent_sample_size"] = M.impl(ess)
    sc = cls(data, **kw)
    if M.symbolic:
        def stub_counts(variable, parents=[], weighted=False, reindex=True):
            stubs._hit("state_counts -> symbolic count table")
            pcols = [cfgs[j] for j in cols]
            if not parents:
                # the parent-free branch always re-indexes to the declared states
                return pd.DataFrame([[N.get((i, cols[0]), core.lift(0))] for i in range(r)], index=list(range(r)), columns=[variable], dtype=object)
            perm = [pa.index(p) for p in parents]
            mi = pd.MultiIndex.from_tuples([tuple(c[t] for t in perm) for c in pcols], names=list(parents))
            return pd.DataFrame([[N[(i, j)] for j in cols] for i in rows], index=rows, columns=mi, dtype=object)
        sc.state_counts = stub_counts
    got = sc.local_score("C", list(pa))
    got_rev = sc.local_score("C", list(pa)[::-1]) if len(pa) > 1 else got
    # ---- closed forms (uninterpreted special functions in symbolic mode, real ones in concrete mode)
    if M.symbolic:
        LG = lambda x: core.CTX.uf("lgam", core.lift(x))  # noqa
        LN = lambda x: core.CTX.uf("ln", core.lift(x))  # noqa
    else:
        from scipy.special import gammaln as _g
        LG = lambda x: float(_g(float(x)))  # noqa
        LN = lambda x: math.log(float(x))  # noqa
    n = lambda i, j: N.get((i, j), 0)  # noqa
    Nj = {j: sum((n(i, j) for i in range(r)), 0) for j in range(q)}
    Ntot = len(data)
    name = desc["score"]
    if name == "K2Score":
        want = 0
        for j in range(q):
            want = want + LG(r) - LG(Nj[j] + r)
            for i in range(r):
                want = want + LG(n(i, j) + 1)
    elif name == "BDeuScore":
        alpha = ess / q
        beta = ess / (q * r)
        want = 0
        for j in range(q):
            want = want + LG(alpha) - LG(Nj[j] + alpha)
            for i in range(r):
                want = want + LG(n(i, j) + beta) - LG(beta)
    elif name == "BDsScore":
        # Scutari's BDs: the imaginary sample is spread over the OBSERVED parent configurations only: alpha_ijk = ess / (r * q~)
        qt = len(cols)
        alpha = ess / qt
        beta = ess / (qt * r)
        want = 0
        for j in cols:
            want = want + LG(alpha) - LG(Nj[j] + alpha)
            for i in range(r):
                want = want + LG(n(i, j) + beta) - LG(beta)
    else:
        want = 0
        for j in cols:
            for i in rows:
                nij = n(i, j)
                if M.symbolic:
                    if nij > 0:
                        want = want + nij * (LN(nij) - LN(Nj[j]))
                else:
                    if nij > 0:
                        want = want + nij * (LN(nij) - LN(Nj[j]))
        pen = q * (r - 1)
        if name == "BicScore":
            want = want - (M.const(0.5) if M.symbolic else 0.5) * LN(Ntot) * pen
        else:
            want = want - pen
    tag = f"{name} C|{pa} cards {card} missing parent-config {desc['missing_col']} missing child state {desc['missing_row']}"
    key = None
    if name == "BDsScore" and desc["missing_col"] is not None:
        # recognise the recorded finding precisely: pgmpy spreads the prior over ALL q parent configurations for the cell hyper-parameters
        # (beta = ess / (q r)) while using the observed ones for alpha; the key is used only if the returned value IS that formula
        alpha_p = ess / len(cols)
        beta_p = ess / (q * r)
        pg = -(q - len(cols)) * LG(alpha_p)     # and a spurious lgamma(alpha) term per unobserved configuration
        for j in cols:
            pg = pg + LG(alpha_p) - LG(Nj[j] + alpha_p)
            for i in range(r):
                pg = pg + LG(n(i, j) + beta_p) - LG(beta_p)
        same = (core.lift(got).q == core.lift(pg).q) if M.symbolic else abs(float(got) - float(pg)) <= 1e-9 * (1 + abs(float(pg)))
        if same:
            key = "closed/BDsScore:known-cell-prior-spread-over-unobserved-parent-configurations"
    if M.symbolic:
        M.samples.append(f"{tag}: local_score == closed form over lgam()/ln()")
        M.eq(got, want, f"{name} local score equals its published closed form", detail=tag, key=key)
        M.eq(got_rev, got, f"{name} local score independent of the order in which parents are listed", detail=tag)
    else:
        M.approx(got, want, 1e-9, f"{name} local score equals its published closed form", detail=tag, key=key)
        M.approx(got_rev, got, 1e-9, f"{name} local score independent of the order in which parents are listed", detail=tag)


def run_equiv(desc, M):
    """X -> Y and Y -> X get the same total score (BDeu, BIC, AIC); K2 is NOT score equivalent and is only checked for symmetry of the harness"""
    import pandas as pd
    import importlib
    SS = importlib.import_module("pgmpy.estimators.StructureScore")
    card = desc["card"]
    rx, ry = card["X"], card["Y"]
    names = [f"n_{x}_{y}" for x in range(rx) for y in range(ry)] + ["ess"]
    M.declare(names, extra=80)
    if M.symbolic:
        core.CTX.assume(core.CTX.uf("lgam", core.lift(1)).e == 0, "lgamma(1) = 0")
        core.CTX.assume(core.CTX.uf("lgam", core.lift(2)).e == 0, "lgamma(2) = 0")
    N = {(x, y): M.sym(f"n_{x}_{y}", pos=True) for x in range(rx) for y in range(ry)}
    ess = M.sym("ess", pos=True)
    if not M.symbolic:
        N = {k: int(math.ceil(float(v))) for k, v in N.items()}
        ess = float(ess)
    recs = []
    for (x, y), c in N.items():
        for _ in range(int(c) if not M.symbolic else 2):
            recs.append(dict(X=x, Y=y))
    data = pd.DataFrame(recs, columns=["X", "Y"])
    cls = getattr(SS, desc["score"])
    kw = {}
    if desc["score"] == "BDeuScore":
        kw["equivalent_sample_size"] = M.impl(ess)
    sc = cls(data, **kw)
    if M.symbolic:
        def stub_counts(variable, parents=[], weighted=False, reindex=True):
            other = "Y" if variable == "X" else "X"
            rv, ro = card[variable], card[other]
            cell = (lambda a, b: N[(a, b)]) if variable == "X" else (lambda a, b: N[(b, a)])
            if not parents:
                return pd.DataFrame([[sum((cell(a, b) for b in range(ro)), core.lift(0))] for a in range(rv)], index=list(range(rv)), columns=[variable], dtype=object)
            mi = pd.MultiIndex.from_tuples([(b,) for b in range(ro)], names=list(parents))
            return pd.DataFrame([[cell(a, b) for b in range(ro)] for a in range(rv)], index=list(range(rv)), columns=mi, dtype=object)
        sc.state_counts = stub_counts
    s_xy = sc.local_score("X", []) + sc.local_score("Y", ["X"])
    s_yx = sc.local_score("Y", []) + sc.local_score("X", ["Y"])
    if desc["score"] == "K2Score":
        return
    if M.symbolic:
        M.eq(s_xy, s_yx, f"{desc['score']} assigns identical scores to the Markov-equivalent DAGs X->Y and Y->X")
    else:
        M.approx(s_xy, s_yx, 1e-9, f"{desc['score']} assigns identical scores to the Markov-equivalent DAGs X->Y and Y->X")

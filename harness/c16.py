"""C16 - queries are pure, repeatable and representation-independent (DESIGN.md 5/C16)."""
import itertools
from fractions import Fraction

import numpy as np

from . import common as C

PROPERTY = "C16"
BUDGET = {"quick": 200, "thorough": 1200}
LEVEL = "model_checking"
BOUNDS = {
    "quick": "one VariableElimination / BeliefPropagation / CausalInference engine, sequences of 3 questions (query, map_query, virtual evidence, "
             "joint T/F) on BNs <=4 nodes with all CPD entries symbolic (bp: 2 symbolic on 4-node shapes): every answer equals the joint oracle, i.e. a "
             "fresh engine's answer, and the model (graph, CPD entries, engine binding) is entry-identical afterwards; permuted node/edge/CPD insertion "
             "orders, 4 node-name and 6 state-name styles, hash seeds 0,1; purity of scoring / estimation / structure search / conversion / export "
             "calls on concrete inputs",
    "thorough": "sequences of length 4, more shapes, hash seeds 0-5",
}
ASSUMPTIONS = ["exact real arithmetic", "numpy<->torch and dtype switching are outside (torch tensors cannot carry symbolic scalars)"]

QUESTIONS = ["query", "query_joint_false", "map", "virtual", "query_evidence", "map_evidence", "virtual_evidence"]


def scenarios(tier, seed):
    out = []
    k = 0
    nh = 2 if tier == "quick" else 6
    import itertools as _it
    for names in (["A", "B", "C"], [2, 0, 1]):
        perms = [list(p) for p in _it.permutations(range(3))]
        out.append(dict(family="pc-stable/order-independence", mode="pcorder", n=3, names=names, orders=perms, hashseed=0, budget_s=100, max_paths=3000, validate=False))
    for rot in range(2 if tier == "quick" else 6):
        base = list(range(4))
        orders = [base, base[::-1], base[rot % 4:] + base[:rot % 4], [2, 0, 3, 1]]
        out.append(dict(family="pc-stable/order-independence", mode="pcorder", n=4, names=["A", "B", "C", "D"], orders=orders, hashseed=rot % 2, budget_s=100,
                        max_paths=1500, validate=False, cost=100))
    shapes = ["chain3", "fork3", "collider3", "full3", "diamond", "collchild", "iso3"]
    L = 3 if tier == "quick" else 4
    for sname in shapes:
        nodes, parents = C.SHAPES[sname]
        for card in C.card_options(nodes, tier)[:2]:
            card = {v: max(2, c) for v, c in card.items()}
            for engine in ("ve", "bp", "ci"):
                if engine == "bp" and sname == "iso3":
                    continue
                seqs = list(itertools.product(QUESTIONS, repeat=L))
                step = 83 if tier == "quick" else 11
                for i in range((k + seed) % step, len(seqs), step):
                    k += 1
                    if engine == "ci" and k % 3:
                        continue
                    d = dict(family=f"seq/{engine}", mode="seq", engine=engine, shape=sname, nodes=nodes, parents=parents, card=card, seq=list(seqs[i]),
                             states=C.STATE_STYLES[k % len(C.STATE_STYLES)], names="str", hashseed=k % nh, budget_s=40,
                             node_order=list(np.roll(nodes, k % len(nodes))), edge_rev=bool(k % 2), cpd_rev=bool((k // 2) % 2))
                    if len(nodes) == 4 and tier == "quick":
                        d["fixed_cpds"] = [nodes[(k + 1) % 4], nodes[(k + 2) % 4]]
                        d["fixed_seed"] = k
                    out.append(d)
                # soft evidence on one variable twice with different likelihoods, and MAP under it, on one engine
                if engine != "ci" and (tier != "quick" or set(card.values()) == {2}):
                    for seq in (["virtual", "virtual_alt", "query"], ["virtual_alt", "virtual", "map_virtual"], ["map_virtual", "map_virtual_alt", "virtual"],
                                ["virtual_evidence", "virtual_alt", "map"], ["virtual", "map_all"], ["map_virtual", "map_all"]):
                        k += 1
                        d = dict(family=f"seq/{engine}", mode="seq", engine=engine, shape=sname, nodes=nodes, parents=parents, card=card, seq=seq,
                                 states=C.STATE_STYLES[k % len(C.STATE_STYLES)], names="str", hashseed=k % nh, budget_s=40,
                                 node_order=list(np.roll(nodes, k % len(nodes))), edge_rev=bool(k % 2), cpd_rev=bool((k // 2) % 2))
                        if len(nodes) == 4:
                            d["fixed_cpds"] = [nodes[(k + 1) % 4], nodes[(k + 2) % 4]]
                            d["fixed_seed"] = k
                        if tier == "quick" and ((k + seed) % 2 or (len(nodes) == 4 and any(q.startswith("map_virtual") for q in seq))):
                            continue
                        if "map_all" in seq:
                            if len(nodes) > 3 or (tier == "quick" and sname not in ("chain3", "collider3")):
                                continue
                            d["max_paths"] = 24 if tier == "quick" else 200
                        out.append(d)
    # representation independence: one question under every relabelling / insertion order
    for sname in ["collider3", "diamond", "collchild"]:
        nodes, parents = C.SHAPES[sname]
        card = C.card_options(nodes, tier)[1]
        card = {v: max(2, c) for v, c in card.items()}
        for names in C.NAME_STYLES:
            for states in C.STATE_STYLES:
                for perm in range(3):
                    k += 1
                    if tier == "quick" and k % 2:
                        continue
                    extra = dict(fixed_cpds=[nodes[(k + 1) % 4], nodes[(k + 2) % 4]], fixed_seed=k) if (len(nodes) == 4 and tier == "quick") else {}
                    out.append(dict(budget_s=40, **extra, family="relabel", mode="relabel", shape=sname, nodes=nodes, parents=parents, card=card, names=names, states=states,
                                    node_order=list(np.roll(nodes, perm)), edge_rev=bool(perm % 2), cpd_rev=bool(k % 2), hashseed=k % nh,
                                    engine=["ve", "bp"][k % 2] if sname != "collchild" or tier != "quick" else "ve"))
    for kind in ["hc_sequence", "hc_start_dag", "hc_data", "mle_data", "bayes_data", "score_data", "convert", "writer", "sampling", "factor_ops_engine", "pc_data", "exhaustive"]:
        for v in range(2):
            out.append(dict(family=f"pure/{kind}", mode="pure", kind=kind, variant=v, hashseed=v, concrete_only=True))
    return out


def snap_model(model):
    return dict(nodes=list(model.nodes()), edges=sorted(map(tuple, model.edges()), key=repr), latents=set(model.latents),
                cpds=[(c.variable, list(c.variables), [int(x) for x in c.cardinality], list(c.values.ravel()), {k: list(v) for k, v in c.state_names.items()})
                      for c in model.cpds], ids=[id(c) for c in model.cpds])


def same_model(M, a, b):
    if a["nodes"] != b["nodes"] or a["edges"] != b["edges"] or a["latents"] != b["latents"] or a["ids"] != b["ids"]:
        return False
    for x, y in zip(a["cpds"], b["cpds"]):
        if x[:3] != y[:3] or x[4] != y[4] or len(x[3]) != len(y[3]):
            return False
        if not all(p is q or (not M.symbolic and p == q) for p, q in zip(x[3], y[3])):
            return False
    return True


def run(desc, M):
    return {"seq": run_seq, "relabel": run_relabel, "pure": run_pure, "pcorder": run_pcorder}[desc["mode"]](desc, M)


def run_pcorder(desc, M):
    """PC-stable with an ARBITRARY conditional-independence oracle (one free Boolean per question {u,v}|S - faithful or not): the skeleton must not
    depend on the order in which the variables are listed.  The oracle is lazy: execution forks on the answers the algorithm asks for."""
    import itertools
    from pgmpy.estimators import PC
    from pgmpy.independencies import Independencies
    n = desc["n"]
    names = desc["names"]
    M.declare([])
    asked = {}

    def ci_test(u, v, Zs, **kw):
        key = "ci_" + "_".join(sorted([str(u), str(v)])) + "__" + "_".join(sorted(map(str, Zs)))
        if key not in asked:
            asked[key] = M.bool(key)
        return bool(asked[key])
    skeletons = []
    for order in desc["orders"]:
        est = PC(independencies=Independencies())
        est.variables = [names[i] for i in order]
        skel, sep = est.estimate(variant="stable", ci_test=ci_test, max_cond_vars=n, return_type="skeleton", show_progress=False, n_jobs=1)
        skeletons.append({frozenset(e) for e in skel.edges()})
        M.check(set(skel.nodes()) <= set(names), "PC-stable skeleton is over the given variables")
    for o, sk in zip(desc["orders"][1:], skeletons[1:]):
        M.check(sk == skeletons[0], "PC-stable skeleton does not depend on the order in which the variables are listed (any CI answers)",
                detail=f"order {[names[i] for i in desc['orders'][0]]}: {sorted(map(sorted, skeletons[0]))}; order {[names[i] for i in o]}: {sorted(map(sorted, sk))}")


def answer_check(desc, M, nm, jt, res, qs, ev, lam, virt, tag, joint=True):
    """res (factor or dict) must equal the conditional of the joint oracle"""
    nodes = desc["nodes"]
    J = jt
    if lam:
        vi = nodes.index(virt)
        J = {st: val * lam[st[vi]] for st, val in jt.items()}
    pe = C.marginal(desc, J, ev)
    inv = {nm[v]: v for v in nodes}

    def chk(phi, vs):
        if not M.check(set(phi.variables) == {nm[v] for v in vs}, f"{tag}: scope", detail=str(phi.variables)):
            return
        order = [inv[x] for x in phi.variables]
        for a in C.assignments(desc, order):
            idx = tuple(phi.name_to_no[nm[v]][C.sname(desc, v, a[v])] for v in order)
            got = phi.values[idx] if isinstance(phi.values, np.ndarray) else phi.values
            M.eq(got * pe, C.marginal(desc, J, {**a, **ev}), f"{tag}: equals a fresh engine's answer (the joint's conditional)")
    if joint:
        chk(res, qs)
    else:
        M.check(set(res.keys()) == {nm[v] for v in qs}, f"{tag}: keys")
        for v in qs:
            if nm[v] in res:
                chk(res[nm[v]], [v])
    return J, pe


def run_seq(desc, M):
    from pgmpy.factors.discrete import TabularCPD
    from pgmpy.inference import BeliefPropagation, CausalInference, VariableElimination
    nodes, card = desc["nodes"], desc["card"]
    alt = any("_alt" in q for q in desc["seq"])
    names = C.sym_names(desc) + [f"lam{i}" for i in range(card[nodes[-1]])] + ([f"mu{i}" for i in range(card[nodes[-1]])] if alt else [])
    M.declare(names)
    positive = True
    tabs = C.make_tables(desc, M, positive=positive)
    virt = nodes[-1]
    lam = [M.sym(f"lam{i}", lo=Fraction(1, 10), hi=1) for i in range(card[virt])]
    lam_main = lam
    mu = [M.sym(f"mu{i}", lo=Fraction(1, 10), hi=1) for i in range(card[virt])] if alt else None
    jt = C.joint_table(desc, tabs)
    model, nm = C.build_bn(desc, M, tabs)
    before = snap_model(model)
    eng = {"ve": VariableElimination, "bp": BeliefPropagation, "ci": CausalInference}[desc["engine"]](model)
    q0, q1 = nodes[0], nodes[1]
    evnode = nodes[-1] if len(nodes) > 2 else None
    for step, qn in enumerate(desc["seq"]):
        tag = f"step {step} {qn}"
        ev = {}
        lam = lam_main
        if qn.endswith("_alt"):
            lam = mu
            qn = qn[:-4]
        if qn in ("query_evidence", "map_evidence") and evnode:
            ev = {evnode: card[evnode] - 1}
        if qn == "virtual_evidence" and len(nodes) > 2:
            ev = {nodes[1]: 0}
        evidence = {nm[e]: C.sname(desc, e, s) for e, s in ev.items()} or None
        evidence_before = dict(evidence) if evidence else None
        if ev:
            pe0 = C.marginal(desc, jt, ev)
            M.assume(pe0 > 0, "P(evidence) > 0")
            M.mark_pos(pe0)
        if desc["engine"] == "ci":
            # interventional query on the first node; repeated calls must agree with the truncated factorisation
            from .c13 import truncated
            y = nodes[-1]
            x = nodes[0]
            if x == y or x in desc["parents"].get(y, []) and False:
                continue
            xs = {x: step % card[x]}
            res = eng.query([nm[y]], do={nm[x]: C.sname(desc, x, xs[x])}, show_progress=False)
            for s in range(card[y]):
                got = res.values[res.name_to_no[nm[y]][C.sname(desc, y, s)]]
                M.eq(got, truncated(desc, tabs, [x], xs, y, s), f"{tag}: causal query repeatable")
        elif qn in ("query", "query_evidence"):
            res = eng.query([nm[q0], nm[q1]] if not ev or q1 != evnode else [nm[q0]], evidence=evidence, show_progress=False)
            answer_check(desc, M, nm, jt, res, [q0, q1] if not ev or q1 != evnode else [q0], ev, None, None, tag)
        elif qn == "query_joint_false":
            res = eng.query([nm[q0], nm[q1]], joint=False, show_progress=False)
            answer_check(desc, M, nm, jt, res, [q0, q1], {}, None, None, tag, joint=False)
        elif qn == "virtual_evidence":
            if len(nodes) <= 2 or virt in (q0, nodes[1]):
                continue
            sn = C.state_names(desc.get("states", "default"), virt, card[virt])
            ve_ = [TabularCPD(nm[virt], card[virt], [[M.impl(x)] for x in lam], **({"state_names": {nm[virt]: sn}} if sn else {}))]
            res = eng.query([nm[q0]], evidence=evidence, virtual_evidence=ve_, show_progress=False)
            answer_check(desc, M, nm, jt, res, [q0], ev, lam, virt, tag)
            # the same evidence dict is reused for a plain query afterwards
            res = eng.query([nm[q0]], evidence=evidence, show_progress=False)
            answer_check(desc, M, nm, jt, res, [q0], ev, None, None, tag + " then plain query with the same evidence dict")
        elif qn == "virtual":
            if virt in (q0,):
                continue
            sn = C.state_names(desc.get("states", "default"), virt, card[virt])
            ve_ = [TabularCPD(nm[virt], card[virt], [[M.impl(x)] for x in lam], **({"state_names": {nm[virt]: sn}} if sn else {}))]
            res = eng.query([nm[q0]], virtual_evidence=ve_, show_progress=False)
            answer_check(desc, M, nm, jt, res, [q0], {}, lam, virt, tag)
        elif qn == "map_virtual":
            if virt in (q0,):
                continue
            sn = C.state_names(desc.get("states", "default"), virt, card[virt])
            ve_ = [TabularCPD(nm[virt], card[virt], [[M.impl(x)] for x in lam], **({"state_names": {nm[virt]: sn}} if sn else {}))]
            res = eng.map_query([nm[q0]], virtual_evidence=ve_, show_progress=False)
            if M.check(set(res.keys()) == {nm[q0]}, f"{tag}: keys"):
                vi = nodes.index(virt)
                J = {st: val * lam[st[vi]] for st, val in jt.items()}
                star = {q0: C.expected_state_names(desc, q0).index(res[nm[q0]])}
                best = C.marginal(desc, J, star)
                for a in C.assignments(desc, [q0]):
                    M.le(C.marginal(desc, J, a), best, f"{tag}: MAP under soft evidence is a maximiser after earlier questions")
        elif qn == "map_all":
            # MAP over ALL variables (no variable list): the answer must be that of a fresh engine - exactly the model's variables, a maximiser
            # of the joint (an earlier soft-evidence question must not linger in it)
            if len(nodes) > 3:
                continue
            res = eng.map_query(show_progress=False)
            if M.check(set(res.keys()) == {nm[v] for v in nodes}, f"{tag}: MAP over all variables assigns exactly the model's variables", detail=str(sorted(map(str, res.keys())))):
                star = tuple(C.expected_state_names(desc, v).index(res[nm[v]]) for v in nodes)
                for st, val in jt.items():
                    M.le(val, jt[star], f"{tag}: MAP over all variables is a maximiser of the joint after earlier questions")
        elif qn in ("map", "map_evidence"):
            qv = [q0] if not ev or q0 != evnode else [q1]
            res = eng.map_query([nm[v] for v in qv], evidence=evidence, show_progress=False)
            if M.check(set(res.keys()) == {nm[v] for v in qv}, f"{tag}: keys"):
                star = {v: C.expected_state_names(desc, v).index(res[nm[v]]) for v in qv}
                best = C.marginal(desc, jt, {**star, **ev})
                for a in C.assignments(desc, qv):
                    M.le(C.marginal(desc, jt, {**a, **ev}), best, f"{tag}: MAP answer still a maximiser after earlier questions")
        if evidence_before is not None:
            M.check(evidence == evidence_before, f"the evidence dict passed to the engine is unchanged after {qn}", detail=f"{evidence}")
        # purity after every question
        M.check(same_model(M, snap_model(model), before), f"the model passed to the engine is unchanged after {qn}", detail=tag)
    if M.symbolic:
        M.samples.append(f"{desc['engine']} sequence {desc['seq']} on {desc['shape']}")


def run_relabel(desc, M):
    from pgmpy.inference import BeliefPropagation, VariableElimination
    nodes, card = desc["nodes"], desc["card"]
    M.declare(C.sym_names(desc))
    tabs = C.make_tables(desc, M, positive=True)
    jt = C.joint_table(desc, tabs)
    model, nm = C.build_bn(desc, M, tabs)
    eng = (VariableElimination if desc["engine"] == "ve" else BeliefPropagation)(model)
    ev = {nodes[-1]: 0}
    evidence = {nm[e]: C.sname(desc, e, s) for e, s in ev.items()}
    res = eng.query([nm[nodes[0]], nm[nodes[1]]], evidence=evidence, show_progress=False)
    answer_check(desc, M, nm, jt, res, nodes[:2], ev, None, None, f"relabelled ({desc['names']}/{desc['states']}) query")
    mp = eng.map_query([nm[nodes[0]]], evidence=evidence, show_progress=False)
    v = nodes[0]
    if M.check(set(mp.keys()) == {nm[v]} and mp[nm[v]] in C.expected_state_names(desc, v), "relabelled MAP returns a declared state name", detail=str(mp)):
        star = C.expected_state_names(desc, v).index(mp[nm[v]])
        for s in range(card[v]):
            M.le(C.marginal(desc, jt, {v: s, **ev}), C.marginal(desc, jt, {v: star, **ev}), "relabelled MAP is a maximiser")


def run_pure(desc, M):
    import copy
    import pandas as pd
    M.declare([])
    kind, v = desc["kind"], desc["variant"]
    rng = np.random.default_rng(7 + v)
    data = pd.DataFrame(rng.integers(0, 2, size=(40, 3)), columns=["a", "b", "c"])
    data["c"] = (data["a"] + rng.integers(0, 2, size=40)) % 3
    data0 = data.copy(deep=True)

    def data_same(tag):
        M.check(list(data.columns) == list(data0.columns) and data.equals(data0) and list(data.index) == list(data0.index) and
                list(map(str, data.dtypes)) == list(map(str, data0.dtypes)), f"the data frame passed to {tag} is unchanged")
    from pgmpy.base import DAG
    from pgmpy.models import BayesianNetwork
    if kind == "hc_start_dag":
        from pgmpy.estimators import HillClimbSearch
        g = DAG()
        g.add_nodes_from(["a", "b", "c"])
        if v:
            g.add_edge("a", "b")
        e0, n0 = set(g.edges()), set(g.nodes())
        est = HillClimbSearch(data)
        res = est.estimate(scoring_method="k2", start_dag=g, fixed_edges=[("b", "c")] if v else set(), show_progress=False, max_iter=5)
        M.check(set(g.edges()) == e0 and set(g.nodes()) == n0, "HillClimbSearch.estimate leaves the caller's start_dag unchanged",
                detail=f"start {sorted(e0)} now {sorted(g.edges())} result {sorted(res.edges())}")
        data_same("HillClimbSearch")
    elif kind == "hc_sequence":
        # one estimator object, two searches with different scoring objects of the same class: the second must equal a fresh estimator's
        from pgmpy.estimators import BDeuScore, HillClimbSearch, K2Score
        cnt = [[30, 20], [20, 30]] if v == 0 else [[25, 5], [10, 40]]
        rows = [(a, b) for a in range(2) for b in range(2) for _ in range(cnt[a][b])]
        d2 = pd.DataFrame(rows, columns=["x", "y"])
        for first, second in ((1, 50), (50, 1)):
            est = HillClimbSearch(d2, use_cache=True)
            est.estimate(scoring_method=BDeuScore(d2, equivalent_sample_size=first), show_progress=False)
            r2 = est.estimate(scoring_method=BDeuScore(d2, equivalent_sample_size=second), show_progress=False)
            fresh = HillClimbSearch(d2, use_cache=True).estimate(scoring_method=BDeuScore(d2, equivalent_sample_size=second), show_progress=False)
            M.check({frozenset(e) for e in r2.edges()} == {frozenset(e) for e in fresh.edges()},
                    "a second structure search on the same estimator equals a fresh estimator's result", detail=f"ess {first} then {second}: {sorted(r2.edges())} vs {sorted(fresh.edges())}")
        est = HillClimbSearch(d2)
        a1 = est.estimate(scoring_method=K2Score(d2), show_progress=False)
        a2 = est.estimate(scoring_method=K2Score(d2), show_progress=False)
        M.check(set(a1.edges()) == set(a2.edges()), "asking the same structure-search question twice gives the same answer")
    elif kind == "hc_data":
        from pgmpy.estimators import HillClimbSearch
        est = HillClimbSearch(data, use_cache=bool(v))
        est.estimate(scoring_method=["bic", "bdeu"][v], show_progress=False, max_iter=4)
        data_same("HillClimbSearch")
    elif kind in ("mle_data", "bayes_data"):
        from pgmpy.estimators import BayesianEstimator, MaximumLikelihoodEstimator
        m = BayesianNetwork([("a", "b"), ("a", "c")])
        s0 = (list(m.nodes()), sorted(m.edges()))
        if kind == "mle_data":
            cp1 = MaximumLikelihoodEstimator(m, data).get_parameters()
            cp2 = MaximumLikelihoodEstimator(m, data).get_parameters()
        else:
            cp1 = BayesianEstimator(m, data).get_parameters(prior_type=["BDeu", "K2"][v])
            cp2 = BayesianEstimator(m, data).get_parameters(prior_type=["BDeu", "K2"][v])
        M.check((list(m.nodes()), sorted(m.edges())) == s0 and not m.cpds, "parameter estimation leaves the model unchanged")
        M.check(all(np.allclose(x.values, y.values) for x, y in zip(sorted(cp1, key=lambda c: c.variable), sorted(cp2, key=lambda c: c.variable))),
                "estimating twice gives the same parameters")
        data_same("the estimator")
        m.fit(data)
        data_same("BayesianNetwork.fit")
    elif kind == "score_data":
        from pgmpy.estimators import BDeuScore, BicScore, K2Score
        m = BayesianNetwork([("a", "b"), ("b", "c")])
        sc = [K2Score, BicScore][v](data)
        s1 = sc.score(m)
        s2 = sc.score(m)
        l1 = sc.local_score("c", ["a", "b"])
        l2 = sc.local_score("c", ["b", "a"])
        M.check(s1 == s2, "scoring twice gives the same number")
        M.check(abs(l1 - l2) < 1e-9, "local score independent of the listed parent order")
        M.check(sorted(m.edges()) == [("a", "b"), ("b", "c")], "scoring leaves the model unchanged")
        data_same("the score")
        BDeuScore(data).score(m)
        data_same("BDeuScore")
    elif kind in ("convert", "writer", "sampling", "factor_ops_engine"):
        from pgmpy.factors.discrete import TabularCPD
        m = BayesianNetwork([("a", "c"), ("b", "c")])
        m.add_cpds(TabularCPD("a", 2, [[0.3], [0.7]]), TabularCPD("b", 2, [[0.6], [0.4]], state_names={"b": ["lo", "hi"]}),
                   TabularCPD("c", 3, [[0.1, 0.2, 0.3, 0.4], [0.5, 0.5, 0.2, 0.1], [0.4, 0.3, 0.5, 0.5]], ["b", "a"], [2, 2],
                              state_names={"c": ["x", "y", "z"], "b": ["lo", "hi"], "a": [0, 1]}))
        before = snap_model(m)
        if kind == "convert":
            m.to_markov_model()
            m.to_junction_tree()
            m.get_markov_blanket("a")
            m.get_independencies()
            if v:
                m.copy()
                m.do(["c"])
                m.get_random_cpds(n_states={"a": 2, "b": 2, "c": 3})
        elif kind == "writer":
            from pgmpy.readwrite import BIFWriter, XMLBIFWriter, UAIWriter
            str(BIFWriter(m))
            XMLBIFWriter(m).__str__()
            UAIWriter(m).__str__()
            # asking a writer object for its text twice gives the same text
            for W_ in (BIFWriter, XMLBIFWriter, UAIWriter):
                w_ = W_(m)
                t1, t2 = w_.__str__(), w_.__str__()
                M.check(t1 == t2, "a writer returns the same text when asked twice", detail=f"{W_.__name__}: {len(t1)} vs {len(t2)} characters")
        elif kind == "sampling":
            from pgmpy.sampling import BayesianModelSampling
            s = BayesianModelSampling(m)
            a1 = s.forward_sample(size=20, seed=5, show_progress=False)
            a2 = s.forward_sample(size=20, seed=5, show_progress=False)
            M.check(a1.equals(a2), "a fixed seed reproduces the same samples on a shared engine")
            from pgmpy.factors.discrete import State
            r1 = s.rejection_sample([State("a", 1)], size=10, seed=3, show_progress=False)
            r2 = s.rejection_sample([State("a", 1)], size=10, seed=3, show_progress=False)
            M.check(r1.equals(r2), "rejection sampling repeatable with a fixed seed")
            l1 = s.likelihood_weighted_sample([State("c", "y")], size=10, seed=3, show_progress=False)
            M.check(len(l1) == 10, "likelihood weighted sample size")
            # simulate(): the evidence dict and the virtual-evidence list handed in are inputs, they must come back unchanged and reusable
            from pgmpy.factors.discrete import TabularCPD
            ev = {"a": 1}
            virt = [TabularCPD("c", 3, [[0.2], [0.3], [0.5]], state_names={"c": ["x", "y", "z"]})]
            virt_vals = [np.array(c.values).copy() for c in virt]
            m.simulate(n_samples=8, evidence=ev, virtual_evidence=virt, seed=2, show_progress=False)
            M.check(ev == {"a": 1}, "simulate() leaves the caller's evidence dict unchanged", detail=str(ev))
            M.check(len(virt) == 1 and all(np.array_equal(np.array(c.values), v0) for c, v0 in zip(virt, virt_vals)), "simulate() leaves the virtual-evidence list unchanged")
            again = m.simulate(n_samples=8, evidence=ev, seed=2, show_progress=False)
            M.check(len(again) == 8 and list(again["a"]) == [1] * 8, "the same evidence dict can be used again after simulate()")
        else:
            from pgmpy.inference import VariableElimination
            from pgmpy.factors.discrete import DiscreteFactor
            # factor arithmetic with a CPD of the model as the RIGHT operand (scope listed in another order than the left one's): out-of-place
            # operations must leave the model's CPD as it was
            left = DiscreteFactor(["a", "c", "b"], [2, 3, 2], np.arange(12, dtype=float) + 1, state_names={"a": [0, 1], "c": ["x", "y", "z"], "b": ["lo", "hi"]})
            cpd_c = m.get_cpds("c")
            _ = left + cpd_c
            _ = left * cpd_c
            _ = left / cpd_c
            _ = DiscreteFactor(["a"], [2], [1.0, 2.0], state_names={"a": [0, 1]}) + cpd_c
            M.check(same_model(M, snap_model(m), before), "factor arithmetic with a model CPD as operand leaves the model unchanged")
            ve = VariableElimination(m)
            f1 = ve.query(["c"], evidence={"a": 1}, show_progress=False)
            f1.values[0] = 99.0
            f2 = ve.query(["c"], evidence={"a": 1}, show_progress=False)
            M.check(list(f2.state_names["c"]) == ["x", "y", "z"] and abs(float(f2.values.sum()) - 1.0) < 1e-9,
                    "mutating a returned answer does not change later answers or the model", detail=f"{f2.state_names} {f2.values}")
        M.check(same_model(M, snap_model(m), before), f"{kind} calls leave the model unchanged")
    elif kind == "pc_data":
        from pgmpy.estimators import PC
        PC(data).estimate(ci_test="chi_square", variant=["stable", "orig"][v], show_progress=False, n_jobs=1)
        data_same("PC")
    elif kind == "exhaustive":
        from pgmpy.estimators import ExhaustiveSearch, K2Score
        d2 = data[["a", "b"]] if v else data
        d20 = d2.copy(deep=True)
        ExhaustiveSearch(d2, scoring_method=K2Score(d2)).estimate()
        M.check(d2.equals(d20), "ExhaustiveSearch leaves the data unchanged")

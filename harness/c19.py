"""C19 - conditional-independence tests compute the statistic they document (DESIGN.md 5/C19; partial).

Discrete tests: the real pgmpy.estimators.CITests.power_divergence (and its wrappers chi_square / g_sq / log_likelihood /
modified_log_likelihood) run on a data frame that holds ONE representative row per occupied cell (x, y, z) together with a SYMBOLIC
positive multiplicity per row - i.e. on every data set with that support at once.  Counting (numpy.bincount, groupby().size()) is modelled
as "count = sum of the multiplicities of the rows that fall into the bin"; scipy.stats.chi2_contingency is modelled by its documented
algorithm (expected frequencies, degrees of freedom, Yates' correction for dof = 1, Cressie-Read power divergence) with log and the
non-integer powers as uninterpreted functions, the chi-square CDF as an uninterpreted function per dof.  pgmpy's own code - argument
handling, stratification, construction of each stratum's contingency table from the unique/inverse index arithmetic, skipping,
accumulation of statistic and dof, p-value and verdict - is what is executed and compared with the documented stratified test.

Partial correlation: pearsonr runs on a frame whose X and Y columns are symbolic reals (Z concrete); numpy.linalg.lstsq is modelled by the
normal equations, scipy.stats.pearsonr by its defining formula (r^2 and sign are compared, no square root needed)."""
import itertools
import math
from fractions import Fraction

import numpy as np

from symx import core, stubs
from symx.core import SymBool, SymReal

PROPERTY = "C19"
LEVEL = "model_checking"
BUDGET = {"quick": 170, "thorough": 900}
BOUNDS = {
    "quick": "power_divergence + 4 wrappers, lambda in {pearson, log-likelihood, mod-log-likelihood, freeman-tukey, neyman, cressie-read, 1/2}; X,Y with 2-3 states, "
             "0-2 binary/ternary conditioning variables, every listed support pattern (empty cells, strata where a state of X or Y is missing, strata with "
             "a single X state), one symbolic positive multiplicity per occupied cell, symbolic significance level; product-form (exactly independent) "
             "multiplicities; pearsonr on 4-5 rows with symbolic X, Y columns and 1 concrete conditioning column, symbolic shift/scale",
    "thorough": "more support patterns, X/Y with 3 states and two conditioning variables, pearsonr with 2 conditioning columns and 6 rows",
}
ASSUMPTIONS = [
    "counting is modelled: numpy.bincount / groupby().size() return the sum of the symbolic multiplicities of the representative rows in each bin "
    "(every data set is a multiset of rows; the frame holds each distinct row once); pandas grouping, numpy.unique and the index arithmetic run for real",
    "scipy.stats.chi2_contingency is replaced by a model of its documented algorithm (expected = outer(row, col)/n, dof = (r-1)(c-1), Yates' correction "
    "iff dof = 1, Cressie-Read statistic); log and non-integer powers are uninterpreted functions with ln(1) = 0 and pow(1) = 1; the chi-square CDF is an "
    "uninterpreted function per dof with cdf(0) = 0; chi2.cdf(., df=0) is nan as in scipy.  The concrete twin re-runs every scenario with integer "
    "multiplicities on the real numpy/scipy, which validates these models against the real kernels",
    "numpy.linalg.lstsq is modelled by the normal equations (full column rank), scipy.stats.pearsonr by r = cov/sqrt(var var) with the p-value an "
    "uninterpreted function of (r^2, n); floating-point rounding is outside the claim",
    "'regression residuals' in the property is read as ordinary least squares WITH an intercept (the only reading under which the test is invariant to "
    "shifting a variable, as the property demands)",
]

LAMBDAS = {"pearson": Fraction(1), "log-likelihood": Fraction(0), "freeman-tukey": Fraction(-1, 2), "mod-log-likelihood": Fraction(-1),
           "neyman": Fraction(-2), "cressie-read": Fraction(2, 3)}
WRAPPERS = {"chi_square": "pearson", "g_sq": "log-likelihood", "log_likelihood": "log-likelihood", "modified_log_likelihood": "mod-log-likelihood"}

MREG = {}      # row label -> multiplicity (symbolic runs only)
CUR = {"idx": None}


# ------------------------------------------------------------------------------------------ models of numpy / scipy


def _lam(lambda_):
    if lambda_ is None:
        return Fraction(1)
    if isinstance(lambda_, str):
        return LAMBDAS[lambda_]
    return Fraction(lambda_).limit_denominator(10 ** 6)


class Fn:
    """special functions: uninterpreted (symbolic) or real (concrete)"""

    abbreviate = True

    def __init__(self, symbolic):
        self.symbolic = symbolic

    def ln(self, x):
        if self.symbolic:
            x = core.lift(x)
            if x.is_const() and x.const() == 1:
                return core.lift(0)
            stubs._hit("uninterpreted ln")
            return opaque("ln", x)
        return math.log(float(x))

    def pw(self, x, lam):
        """x ** lam for non-integer lam"""
        if self.symbolic:
            x = core.lift(x)
            if x.is_const() and x.const() == 1:
                return core.lift(1)
            stubs._hit("uninterpreted pow")
            return opaque(f"pw_{lam.numerator}_{lam.denominator}", x)
        return float(x) ** float(lam)

    def cdf(self, x, dof):
        if dof == 0:
            return float("nan")
        if isinstance(x, float) and (math.isinf(x) or math.isnan(x)):
            return 1.0 if x == float("inf") else float("nan")
        if self.symbolic:
            x = core.lift(x)
            if x.is_const() and x.const() == 0:
                return core.lift(0)
            stubs._hit("uninterpreted chi2.cdf")
            return opaque(f"chi2cdf_{dof}", x)
        from scipy import stats as _st
        return float(_st.chi2.cdf(float(x), df=dof))

    def zero(self):
        return core.lift(0) if self.symbolic else 0

    def gt(self, a, b):
        return bool(a > b)

    def lt(self, a, b):
        return bool(a < b)


def opaque(fname, x):
    """uninterpreted function application as an unconstrained atom, shared by all applications to the same canonical argument (syntactic
    congruence).  Leaving the atom unconstrained over-approximates (sound for proofs); a counterexample that exploits it does not replay."""
    x = core.lift(x)
    ctx = core.CTX
    key = (fname, x.q)
    if key not in ctx.uf_apps:
        g, _ = ctx.fresh()
        ctx.uf_apps[key] = g
    return ctx.uf_apps[key]


def abbrev(x, pos=False, define=True):
    """definitional extension: a fresh generator g with the base constraint g == x, shared by all terms with the same canonical form
    (keeps marginal totals and per-stratum statistics as atoms instead of expanding one huge rational function)"""
    x = core.lift(x)
    if x.is_const() or (x.q.denom.is_ground and len(x.q.numer.terms()) == 1):
        return x
    ctx = core.CTX
    key = ("abbr", x.q)
    if key not in ctx.uf_apps:
        g, zv = ctx.fresh(pos=pos)
        if define:
            ctx.base.append(zv == x.e)
        if pos:
            ctx.base.append(zv > 0)
            ctx.pos_gens.add(ctx.pool[ctx.pool_used - 1])
        ctx.uf_apps[key] = g
    return ctx.uf_apps[key]


def contingency_model(obs, lam, F, correction=True):
    """memoised per path by the canonical table (the pgmpy side and the oracle side evaluate the same documented formula; what differs -
    and is being checked - is the table pgmpy builds, the lambda it passes and what it does with the results)"""
    if not F.symbolic:
        return _contingency_model(obs, lam, F, correction)
    key = ("cm", tuple(tuple(core.lift(v).q for v in row) for row in obs), lam, correction)
    memo = core.CTX.uf_apps
    if key not in memo:
        try:
            stat, dof, exp = _contingency_model(obs, lam, F, correction)
            # opaque atom per distinct canonical statistic (over-approximation: its value is left unconstrained, which is sound for proofs)
            memo[key] = (abbrev(stat, define=False) if isinstance(stat, SymReal) else stat, dof, exp)
        except ValueError as e:
            memo[key] = e
    if isinstance(memo[key], ValueError):
        raise memo[key]
    return memo[key]


def _contingency_model(obs, lam, F, correction=True):
    """Documented algorithm of scipy.stats.chi2_contingency on a 2-D table `obs` (list of lists).  -> (stat, dof, expected)
    Raises ValueError like scipy when an expected frequency is zero."""
    r, c = len(obs), len(obs[0])
    rows = [sum(obs[i][1:], obs[i][0]) for i in range(r)]
    cols = [sum((obs[i][j] for i in range(1, r)), obs[0][j]) for j in range(c)]
    n = sum(rows[1:], rows[0])
    n_raw = n
    if F.symbolic and F.abbreviate:
        # marginal totals as atoms (sums of positive multiplicities)
        rows = [abbrev(v, pos=True) for v in rows]
        cols = [abbrev(v, pos=True) for v in cols]
        n = abbrev(n, pos=True)
    exp = [[rows[i] * cols[j] / n for j in range(c)] for i in range(r)]
    for i in range(r):
        for j in range(c):
            if bool(exp[i][j] == 0):
                raise ValueError(f"The internally computed table of expected frequencies has a zero element at ({i}, {j}).")
    dof = (r - 1) * (c - 1)
    if dof == 0:
        return F.zero(), 0, exp
    obs = [list(row) for row in obs]
    if dof == 1 and correction:
        # Yates' correction: observed moves towards expected by min(1/2, |expected - observed|).  In a 2x2 table expected - observed equals
        # +D, -D, -D, +D with D = (o01 o10 - o00 o11) / n, so the sign and size of the correction are decided once, on the determinant
        # (scipy computes the same quantities cell by cell).
        half = Fraction(1, 2) if F.symbolic else 0.5
        D = (obs[0][1] * obs[1][0] - obs[0][0] * obs[1][1]) / n_raw
        if F.gt(D, 0):
            small, sgn = F.lt(D, half), 1
        elif F.lt(D, 0):
            small, sgn = F.lt(-D, half), -1
        else:
            small, sgn = True, 0
        if small:
            obs = [list(row) for row in exp]          # observed + (expected - observed)
        else:
            for i in range(2):
                for j in range(2):
                    obs[i][j] = obs[i][j] + (half if (i + j) % 2 == 0 else -half) * sgn
    stat = F.zero()
    for i in range(r):
        for j in range(c):
            o, e = obs[i][j], exp[i][j]
            if lam == 1:
                stat = stat + (o - e) * (o - e) / e
            elif lam == 0:
                if not bool(o == 0):
                    stat = stat + 2 * o * F.ln(o / e)
            elif lam == -1:
                # scipy: 2 * xlogy(e, e/o); an observed zero gives +inf
                if bool(o == 0):
                    stat = stat + float("inf")
                else:
                    stat = stat + 2 * e * F.ln(e / o)
            else:
                if lam.denominator == 1:
                    k = int(lam)
                    if bool(o == 0) and k < 0:
                        t = float("inf")
                    else:
                        ratio = o / e
                        t = ratio ** k if k > 0 else (e / o) ** (-k)
                else:
                    if bool(o == 0):
                        t = 0 if lam > 0 else float("inf")
                    else:
                        t = F.pw(o / e, lam)
                stat = stat + o * (t - 1) * (Fraction(2) / (lam * (lam + 1)) if F.symbolic else 2.0 / (float(lam) * (float(lam) + 1)))
    return stat, dof, exp


class _Chi2:
    def __init__(self, F):
        self.F = F

    def cdf(self, x, df=None, *a, **k):
        stubs._hit("scipy.stats.chi2.cdf -> uninterpreted function per dof")
        return self.F.cdf(x, int(df))

    def sf(self, x, df=None, *a, **k):
        return 1 - self.cdf(x, df)


class RVal:
    """Pearson correlation kept as (cov, var_x, var_y): r = cov / sqrt(var_x var_y)"""

    def __init__(self, cov, vx, vy):
        self.cov, self.vx, self.vy = cov, vx, vy


class _StatsC:
    def __init__(self):
        self.F = Fn(True)
        self.chi2 = _Chi2(self.F)

    def __getattr__(self, k):
        from scipy import stats as _st
        return getattr(_st, k)

    def chi2_contingency(self, observed, correction=True, lambda_=None, **kw):
        stubs._hit("scipy.stats.chi2_contingency -> documented algorithm over symbolic counts")
        a = np.asarray(observed, dtype=object)
        if a.ndim != 2:
            raise core.HarnessError("chi2_contingency model: table is not 2-D")
        tab = [[core.lift(a[i, j]) for j in range(a.shape[1])] for i in range(a.shape[0])]
        stat, dof, exp = contingency_model(tab, _lam(lambda_), self.F, correction)
        p = 1.0 if dof == 0 else 1 - self.F.cdf(stat, dof)
        return stat, p, dof, exp

    def pearsonr(self, x, y, **kw):
        stubs._hit("scipy.stats.pearsonr -> defining formula (cov, variances)")
        xs = [core.lift(v) for v in np.asarray(x, dtype=object).ravel()]
        ys = [core.lift(v) for v in np.asarray(y, dtype=object).ravel()]
        cov, vx, vy = pearson_parts(xs, ys)
        if bool(vx == 0) or bool(vy == 0):
            return float("nan"), float("nan")
        r2 = cov * cov / (vx * vy)
        return RVal(cov, vx, vy), opaque(f"pearson_p_{len(xs)}", r2)


def pearson_parts(xs, ys):
    n = len(xs)
    mx = sum(xs[1:], xs[0]) / n
    my = sum(ys[1:], ys[0]) / n
    cov = sum(((a - mx) * (b - my) for a, b in zip(xs, ys)), 0 * xs[0])
    vx = sum(((a - mx) * (a - mx) for a in xs), 0 * xs[0])
    vy = sum(((b - my) * (b - my) for b in ys), 0 * ys[0])
    return cov, vx, vy


class _LinalgC:
    def __getattr__(self, k):
        return getattr(np.linalg, k)

    @staticmethod
    def lstsq(a, b, rcond=None):
        A = np.asarray(a, dtype=object)
        B = np.asarray(b, dtype=object)
        if not any(isinstance(v, SymReal) for v in list(A.ravel()) + list(B.ravel())):
            return np.linalg.lstsq(A.astype(float), B.astype(float), rcond=rcond)
        stubs._hit("np.linalg.lstsq -> normal equations (symbolic Gauss-Jordan)")
        from .c20 import _Linalg
        lift = np.vectorize(core.lift, otypes=[object])
        A, B = lift(A), lift(B)
        AtA = A.T.dot(A)
        sol = _Linalg.inv(AtA).dot(A.T.dot(B))
        return sol, None, A.shape[1], None


class _NPC:
    linalg = _LinalgC()

    def __getattr__(self, k):
        return getattr(np, k)

    def unique(self, ar, return_inverse=False, **kw):
        if hasattr(ar, "index"):
            CUR["idx"] = list(ar.index)
        return np.unique(np.asarray(ar), return_inverse=return_inverse, **kw)

    def bincount(self, x, weights=None, minlength=0):
        if not MREG:
            return np.bincount(x, weights=weights, minlength=minlength)
        stubs._hit("np.bincount -> sum of symbolic row multiplicities per bin")
        x = np.asarray(x)
        idx = CUR["idx"]
        if idx is None or len(idx) != len(x):
            raise core.HarnessError("bincount model: lost track of the rows being counted")
        out = np.empty(max(int(minlength), int(x.max()) + 1 if len(x) else 0), dtype=object)
        out.fill(core.lift(0))
        for k, i in enumerate(x):
            out[i] = out[i] + MREG[idx[k]]
        return out

    def ones(self, shape, dtype=None, **kw):
        return np.ones(shape, **kw) if dtype is None else np.ones(shape, dtype=dtype, **kw)


def _wframe_cls():
    import pandas as pd

    class _WGB:
        def __init__(self, gb, frame, by, kw):
            self.gb, self.frame, self.by, self.kw = gb, frame, by, kw

        def size(self):
            stubs._hit("groupby().size() -> sum of symbolic row multiplicities per group")
            w = pd.Series([MREG[i] for i in self.frame.index], index=self.frame.index, dtype=object)
            keys = self.by if isinstance(self.by, (list, tuple)) else [self.by]
            return w.groupby([self.frame[k] for k in keys], observed=self.kw.get("observed", True)).sum()

        def __iter__(self):
            return iter(self.gb)

        def __getattr__(self, k):
            return getattr(self.gb, k)

    class WFrame(pd.DataFrame):
        @property
        def _constructor(self):
            return WFrame

        def groupby(self, by=None, *a, **k):
            gb = pd.DataFrame.groupby(self, by, *a, **k)
            if MREG:
                return _WGB(gb, self, by, k)
            return gb
    return WFrame


def install_stubs(desc):
    MREG.clear()
    CUR["idx"] = None
    stubs.patch_attr("pgmpy.estimators.CITests", "np", _NPC())
    stubs.patch_attr("pgmpy.estimators.CITests", "stats", _StatsC())


# ------------------------------------------------------------------------------------------ scenarios


def _supports(xc, yc, zcards, tier):
    """support patterns: list of sets of absent cells (x, y, z-tuple)"""
    zs = list(itertools.product(*[range(c) for c in zcards])) if zcards else [()]
    out = [frozenset()]
    z0 = zs[0]
    zl = zs[-1]
    out.append(frozenset({(0, 0, z0)}))                                   # one empty cell
    out.append(frozenset({(xc - 1, y, zl) for y in range(yc)}))            # a state of X missing in the last stratum
    if zcards:
        out.append(frozenset({(x, y, zl) for x in range(1, xc) for y in range(yc)}))  # last stratum has a single X state (dof 0 there)
        out.append(frozenset({(x, y, z) for z in zs for x in range(1, xc) for y in range(yc) if z != z0} | {(xc - 1, yc - 1, z0)}))
        out.append(frozenset({(x, y, z) for z in zs for x in range(1, xc) for y in range(yc)}))  # every stratum has a single X state
        if len(zs) > 2:
            out.append(frozenset({(x, y, zs[1]) for x in range(xc) for y in range(yc)}))          # a stratum that never occurs
    if xc >= 3:
        out.append(frozenset({(1, y, zl) for y in range(yc)}))             # the MIDDLE state of X missing in a stratum (labels with a gap there)
    if yc >= 3:
        out.append(frozenset({(x, 1, z0) for x in range(xc)}))             # the middle state of Y missing in a stratum
    if tier == "thorough":
        out.append(frozenset({(0, 0, z0), (xc - 1, yc - 1, zl)}))
        out.append(frozenset({(x, yc - 1, z0) for x in range(xc)}))
    seen, res = set(), []
    for s in out:
        if s not in seen:
            seen.add(s)
            res.append(sorted(s))
    return res


def scenarios(tier, seed):
    out = []
    k = 0
    tests = [("power_divergence", l) for l in ["pearson", "log-likelihood", "mod-log-likelihood", "freeman-tukey", "neyman", "cressie-read", 0.5]]
    tests += [(w, None) for w in WRAPPERS]
    shapes = [(2, 2, []), (2, 2, [2]), (2, 3, [2]), (3, 2, [2]), (2, 2, [2, 2]), (3, 3, []), (2, 2, [3])]
    if tier == "thorough":
        shapes += [(3, 3, [2]), (2, 3, [2, 2]), (3, 2, [3])]
    for (xc, yc, zc) in shapes:
        sups = _supports(xc, yc, zc, tier)
        for si, absent in enumerate(sups):
            for ti, (test, lam) in enumerate(tests):
                k += 1
                if tier == "quick":
                    # rotate tests over support patterns; the Pearson family everywhere
                    if (k + seed) % 4 and not (test == "chi_square" and si % 2 == 0):
                        continue
                for dt in (["int", "cat", "str", "gap"] if (si + ti) % 5 == 0 else (["gap"] if (si + ti) % 5 == 2 else ["int"])):
                    out.append(dict(family=f"discrete/{test}", mode="discrete", test=test, lam=lam, xc=xc, yc=yc, zc=zc, absent=[list(map(_jsonable, a)) for a in absent],
                                    dtype=dt, indep=False, hashseed=k % 2, budget_s=40 if tier == "quick" else 300,
                                    max_paths=(60 if tier == "quick" else 700), cost=5 ** len(zs_of(zc))))
        # exactly independent tables (product-form multiplicities)
        for (test, lam) in [("chi_square", None), ("g_sq", None), ("power_divergence", "cressie-read"), ("modified_log_likelihood", None), ("power_divergence", "neyman")]:
            k += 1
            if tier == "quick" and (k + seed) % 2 and len(zc) > 1:
                continue
            out.append(dict(family=f"independent/{test}", mode="discrete", test=test, lam=lam, xc=xc, yc=yc, zc=zc, absent=[], dtype="int", indep=True,
                            hashseed=k % 2, budget_s=60, max_paths=100, cost=3))
    # declared-but-unobserved categories (categorical dtype)
    for test in ("chi_square", "g_sq"):
        for which in ("X", "Y", "Z"):
            for zc in ([], [2]):
                if which == "Z" and not zc:
                    continue
                k += 1
                out.append(dict(family="discrete/unobserved-category", mode="discrete", test=test, lam=None, xc=2, yc=2, zc=zc, absent=[], dtype="cat", extra_cat=which,
                                indep=False, hashseed=k % 2, budget_s=90, max_paths=400))
    # partial correlation
    for n, nz in ([(4, 1), (5, 1)] + ([(5, 2), (6, 2), (6, 1)] if tier == "thorough" else [])):
        for variant in ("residuals", "shift_x", "shift_y", "scale_x", "shift_z", "scale_z", "boolean"):
            k += 1
            out.append(dict(family=f"pearsonr/{variant}", mode="pearsonr", n=n, nz=nz, variant=variant, hashseed=k % 2, budget_s=120, max_paths=50, cost=10,
                            zseed=k))
    for n in (6, 9):
        out.append(dict(family="pearsonr/unconditional", mode="pearsonr0", n=n, hashseed=0, concrete_only=True))
    return out


def zs_of(zc):
    return list(itertools.product(*[range(c) for c in zc])) if zc else [()]


def _jsonable(a):
    return list(a) if isinstance(a, tuple) else a


# ------------------------------------------------------------------------------------------ discrete tests


def _label(dt, var, i):
    if dt == "str":
        return f"{var.lower()}{i}"
    if dt == "gap":      # integer labels that are not consecutive
        return [1, 5, 10, 11][i]
    return i


def run(desc, M):
    return {"discrete": run_discrete, "pearsonr": run_pearsonr, "pearsonr0": run_pearsonr0}[desc["mode"]](desc, M)


def run_discrete(desc, M):
    import importlib
    import pandas as pd
    CI = importlib.import_module("pgmpy.estimators.CITests")
    xc, yc, zc = desc["xc"], desc["yc"], desc["zc"]
    Z = [f"Z{i}" for i in range(len(zc))]
    zs = list(itertools.product(*[range(c) for c in zc])) if zc else [()]
    absent = {(a[0], a[1], tuple(a[2])) for a in desc["absent"]}
    cells = [(x, y, z) for z in zs for x in range(xc) for y in range(yc) if (x, y, z) not in absent]
    indep = desc["indep"]
    if indep:
        names = [f"a_{x}_{zi}" for zi in range(len(zs)) for x in range(xc)] + [f"b_{y}_{zi}" for zi in range(len(zs)) for y in range(yc)]
    else:
        names = [f"m{i}" for i in range(len(cells))]
    M.declare(names + ["alpha"], extra=2 * len(cells) + 8 * len(zs) + 16)
    F = Fn(M.symbolic)
    Fn.abbreviate = not indep   # product-form tables must cancel algebraically (e = o), so their marginals stay expanded

    def integer(v):
        return v if M.symbolic else int(math.ceil(float(v) * 8))
    mult = {}
    if indep:
        a = {(x, zi): integer(M.sym(f"a_{x}_{zi}", pos=True)) for zi in range(len(zs)) for x in range(xc)}
        b = {(y, zi): integer(M.sym(f"b_{y}_{zi}", pos=True)) for zi in range(len(zs)) for y in range(yc)}
        for (x, y, z) in cells:
            mult[(x, y, z)] = a[(x, zs.index(z))] * b[(y, zs.index(z))]
    else:
        for i, c in enumerate(cells):
            mult[c] = integer(M.sym(f"m{i}", pos=True))
    alpha = M.sym("alpha", lo=Fraction(1, 1000), hi=Fraction(999, 1000))
    dt = desc["dtype"]

    def frame(order, colorder):
        rows, labels = [], []
        for ci in order:
            (x, y, z) = cells[ci]
            rec = {"X": _label(dt, "X", x), "Y": _label(dt, "Y", y)}
            for zn, zv in zip(Z, z):
                rec[zn] = _label(dt, zn, zv)
            reps = 1 if M.symbolic else int(mult[(x, y, z)])
            for _ in range(reps):
                rows.append(rec)
                labels.append(len(labels) if not M.symbolic else ci)
        df = pd.DataFrame(rows, columns=colorder, index=labels)
        if dt == "cat":
            for col in colorder:
                card = {"X": xc, "Y": yc}.get(col) or zc[Z.index(col)]
                cats = [_label(dt, col, i) for i in range(card)]
                if desc.get("extra_cat") == col[0]:
                    cats = cats + [99]
                df[col] = pd.Categorical(df[col], categories=cats)
        if M.symbolic:
            df = _wframe_cls()(df)
        return df
    base_order = list(range(len(cells)))
    perm_order = base_order[1::2] + base_order[0::2][::-1]
    data = frame(base_order, ["X", "Y"] + Z)
    data_perm = frame(perm_order, Z[::-1] + ["Y", "X"])
    if M.symbolic:
        MREG.clear()
        for ci, c in enumerate(cells):
            MREG[ci] = core.lift(mult[c])

    # ---- oracle: the documented stratified test, from the multiplicities
    lam = _lam(WRAPPERS.get(desc["test"], desc["lam"]))
    stat_o, dof_o = F.zero(), 0
    for z in zs:
        xs = [x for x in range(xc) if any((x, y, z) in mult for y in range(yc))]
        ys = [y for y in range(yc) if any((x, y, z) in mult for x in range(xc))]
        if not xs:
            continue
        tab = [[mult.get((x, y, z), F.zero() if M.symbolic else 0) for y in ys] for x in xs]
        if M.symbolic:
            tab = [[core.lift(v) for v in row] for row in tab]
        s, d, _ = contingency_model(tab, lam, F)
        stat_o = stat_o + s
        dof_o += d
    if dof_o == 0:
        p_o = F.zero() + 1     # nothing to test: the statistic is zero and the table is exactly independent
    else:
        p_o = 1 - F.cdf(stat_o, dof_o)

    fn = getattr(CI, desc["test"])
    kw = {} if desc["test"] in WRAPPERS else {"lambda_": desc["lam"]}
    tag = f"{desc['test']}{'' if desc['lam'] is None else '[' + str(desc['lam']) + ']'} X:{xc} Y:{yc} Z:{zc} absent:{sorted(absent)} dtype:{dt}"

    def call(X, Y, Zl, df, **extra):
        return fn(X=X, Y=Y, Z=Zl, data=df, **kw, **extra)

    def compare(res, what):
        chi, p, dof = res
        M.check(int(dof) == dof_o, f"degrees of freedom = sum over strata of (r-1)(c-1) [{what}]", detail=f"{tag}: got {dof} want {dof_o}")
        if M.symbolic:
            M.eq(chi, stat_o, f"statistic equals the documented stratified power-divergence statistic [{what}]", detail=tag)
            M.eq(p, p_o, f"p-value = 1 - chi2.cdf(statistic, dof) [{what}]", detail=tag)
        else:
            _approx(M, chi, stat_o, f"statistic equals the documented stratified power-divergence statistic [{what}]", tag)
            _approx(M, p, p_o, f"p-value = 1 - chi2.cdf(statistic, dof) [{what}]", tag)

    res = call("X", "Y", Z, data, boolean=False)
    compare(res, "as given")
    if indep:
        if M.symbolic:
            M.eq(res[0], 0, "statistic is zero on an exactly independent table", detail=tag)
            M.eq(res[1], 1, "p-value is one on an exactly independent table", detail=tag)
        else:
            _approx(M, res[0], 0.0, "statistic is zero on an exactly independent table", tag, atol=1e-9)
            _approx(M, res[1], 1.0, "p-value is one on an exactly independent table", tag, atol=1e-9)
    compare(call("Y", "X", Z, data, boolean=False), "X and Y swapped")
    if len(Z) > 1:
        compare(call("X", "Y", Z[::-1], data, boolean=False), "conditioning variables listed in another order")
    compare(call("X", "Y", Z, data_perm, boolean=False), "rows and columns of the frame permuted")
    # verdict
    verdict = call("X", "Y", Z, data, boolean=True, significance_level=M.impl(alpha))
    if M.symbolic:
        want = p_o >= alpha
        we = want.e if isinstance(want, SymBool) else core.z3.BoolVal(bool(want))
        ve = verdict.e if isinstance(verdict, SymBool) else core.z3.BoolVal(bool(verdict))
        M.check(SymBool(ve == we), "boolean verdict equals (p-value >= significance level)", detail=tag)
        M.samples.append(f"{tag}: statistic, dof, p-value equal the stratified test for all multiplicities")
    else:
        pf = float(p_o)
        if abs(pf - float(alpha)) > 1e-9:
            M.check(bool(verdict) == (pf >= float(alpha)), "boolean verdict equals (p-value >= significance level)", detail=f"{tag}: p={pf} alpha={float(alpha)} verdict={verdict}")


def _approx(M, got, want, label, tag, atol=1e-9):
    got, want = float(got), float(want)
    M.n_obl += 1
    ok = (math.isnan(got) and math.isnan(want)) or got == want or abs(got - want) <= atol + 1e-7 * abs(want)
    if not ok:
        from symx import mode
        M.failures.append(mode.Failure(label, M.key(label, None), f"{tag}: got {got!r} want {want!r}", M.values, kind="concrete"))
    return ok


# ------------------------------------------------------------------------------------------ partial correlation


def _zcols(n, nz, seed):
    import random
    rnd = random.Random(seed)
    cols = []
    for _ in range(nz):
        while True:
            col = [Fraction(rnd.randint(-12, 12), 4) for _ in range(n)]
            if len(set(col)) >= 3:
                break
        cols.append(col)
    return cols


def _ols_residuals(cols, target, M):
    """residuals of the least-squares regression of `target` on `cols` plus an intercept (exact normal equations)"""
    from .c20 import mat_inv
    n = len(target)
    A = [[M.const(1)] + [M.const(c[i]) if not isinstance(c[i], SymReal) else c[i] for c in cols] for i in range(n)]
    k = len(A[0])
    AtA = [[sum((A[i][a] * A[i][b] for i in range(n)), M.const(0)) for b in range(k)] for a in range(k)]
    Atb = [sum((A[i][a] * target[i] for i in range(n)), M.const(0)) for a in range(k)]
    inv = mat_inv(AtA, M)
    beta = [sum((inv[a][b] * Atb[b] for b in range(k)), M.const(0)) for a in range(k)]
    return [target[i] - sum((A[i][a] * beta[a] for a in range(k)), M.const(0)) for i in range(n)]


def run_pearsonr(desc, M):
    import importlib
    import pandas as pd
    CI = importlib.import_module("pgmpy.estimators.CITests")
    n, nz, variant = desc["n"], desc["nz"], desc["variant"]
    M.declare([f"x{i}" for i in range(n)] + [f"y{i}" for i in range(n)] + ["s", "c", "alpha"], extra=20)
    xs = [M.sym(f"x{i}") for i in range(n)]
    ys = [M.sym(f"y{i}") for i in range(n)]
    s = M.sym("s", lo=Fraction(1, 8), hi=8)
    c = M.sym("c", lo=-8, hi=8)
    alpha = M.sym("alpha", lo=Fraction(1, 1000), hi=Fraction(999, 1000))
    zcols = _zcols(n, nz, desc["zseed"])
    Z = [f"Z{j}" for j in range(nz)]
    # oracle: partial correlation = Pearson correlation of the OLS residuals (regression with intercept)
    rx = _ols_residuals(zcols, xs, M)
    ry = _ols_residuals(zcols, ys, M)
    cov_o, vx_o, vy_o = pearson_parts(rx, ry)
    M.assume(vx_o > 0, "X is not an exact affine function of Z")
    M.assume(vy_o > 0, "Y is not an exact affine function of Z")

    def frame(xv, yv, zv):
        d = {"X": [M.impl(v) for v in xv], "Y": [M.impl(v) for v in yv]}
        for j, col in enumerate(zv):
            d[Z[j]] = [float(v) for v in col]
        return pd.DataFrame(d, dtype=object if M.symbolic else float)

    def same_as_oracle(coef, what):
        if M.symbolic:
            if not isinstance(coef, RVal):
                M.fail(f"partial correlation equals the Pearson correlation of the regression residuals [{what}]", f"coefficient is {coef!r}")
                return
            lab = f"partial correlation equals the Pearson correlation of the regression residuals (squared) [{what}]"
            if coef.cov.q == cov_o.q and coef.vx.q == vx_o.q and coef.vy.q == vy_o.q:
                # covariance and both variances of the residuals are the oracle's rational functions: r is the same, sign included
                for a, b in ((coef.cov, cov_o), (coef.vx, vx_o), (coef.vy, vy_o)):
                    M.eq(a, b, lab, detail=f"n={n} Z={zcols}")
                return
            M.eq(coef.cov * coef.cov * (vx_o * vy_o), cov_o * cov_o * (coef.vx * coef.vy), lab, detail=f"n={n} Z={zcols}")
            slab = f"partial correlation has the sign of the residual covariance [{what}]"
            ratio = coef.cov.q / cov_o.q if cov_o.q != 0 else None
            sn = core.poly_sign(ratio.numer) if ratio is not None else None
            sd = core.poly_sign(ratio.denom) if ratio is not None else None
            if sn is not None and sd is not None:
                # the two covariances differ by a factor of known sign (e.g. the square of the positive scale)
                M.check(sn * sd > 0, slab, detail=f"n={n} Z={zcols}: ratio {ratio}")
            else:
                M.le(0, coef.cov * cov_o, slab, detail=f"n={n} Z={zcols}")
        else:
            want = float(cov_o) / math.sqrt(float(vx_o) * float(vy_o))
            ok = abs(float(coef) - want) <= 1e-6
            M.check(ok, f"partial correlation equals the Pearson correlation of the regression residuals (squared) [{what}]",
                    detail=f"n={n} Z={[[str(v) for v in col] for col in zcols]}: got {float(coef)!r} want {want!r}")
    data = frame(xs, ys, zcols)
    if variant == "boolean":
        verdict = CI.pearsonr("X", "Y", Z, data, boolean=True, significance_level=M.impl(alpha))
        coef, p = CI.pearsonr("X", "Y", Z, data, boolean=False)
        if M.symbolic:
            want = p >= alpha
            we = want.e if isinstance(want, SymBool) else core.z3.BoolVal(bool(want))
            M.check(SymBool(we == core.z3.BoolVal(bool(verdict))), "boolean verdict equals (p-value >= significance level)")
        else:
            if abs(float(p) - float(alpha)) > 1e-9:
                M.check(bool(verdict) == (float(p) >= float(alpha)), "boolean verdict equals (p-value >= significance level)", detail=f"p={p} alpha={float(alpha)}")
        return
    coef, p = CI.pearsonr("X", "Y", Z, data, boolean=False)
    same_as_oracle(coef, "as given")
    if variant == "residuals":
        return
    if variant == "shift_x":
        d2 = frame([v + c for v in xs], ys, zcols)
    elif variant == "shift_y":
        d2 = frame(xs, [v + c for v in ys], zcols)
    elif variant == "scale_x":
        d2 = frame([v * s + c for v in xs], [v * s for v in ys], zcols)
    elif variant == "shift_z":
        d2 = frame(xs, ys, [[v + Fraction(5, 2) for v in col] for col in zcols])
    else:
        d2 = frame(xs, ys, [[v * Fraction(3, 2) + 1 for v in col] for col in zcols])
    coef2, p2 = CI.pearsonr("X", "Y", Z, d2, boolean=False)
    same_as_oracle(coef2, f"after {variant}")
    if M.symbolic and isinstance(coef, RVal) and isinstance(coef2, RVal):
        r2a = coef.cov * coef.cov / (coef.vx * coef.vy)
        r2b = coef2.cov * coef2.cov / (coef2.vx * coef2.vy)
        M.eq(r2a, r2b, "partial correlation is invariant to shifting / positively rescaling a variable", detail=variant)
        M.eq(p, p2, "p-value is invariant to shifting / positively rescaling a variable", detail=variant)
    elif not M.symbolic:
        M.check(abs(float(coef) - float(coef2)) <= 1e-6, "partial correlation is invariant to shifting / positively rescaling a variable",
                detail=f"{variant}: {float(coef)!r} vs {float(coef2)!r}")


def run_pearsonr0(desc, M):
    """unconditional test: pgmpy hands the two columns to scipy; concrete check only (there is no pgmpy computation to execute symbolically)"""
    import importlib
    import random
    import pandas as pd
    CI = importlib.import_module("pgmpy.estimators.CITests")
    rnd = random.Random(desc["n"])
    n = desc["n"]
    xs = [Fraction(rnd.randint(-20, 20), 4) for _ in range(n)]
    ys = [Fraction(rnd.randint(-20, 20), 4) + x / 3 for x in xs]
    cov, vx, vy = pearson_parts(xs, ys)
    want = float(cov) / math.sqrt(float(vx) * float(vy))
    d = pd.DataFrame({"X": [float(v) for v in xs], "Y": [float(v) for v in ys]})
    coef, p = CI.pearsonr("X", "Y", [], d, boolean=False)
    M.check(abs(float(coef) - want) <= 1e-9, "unconditional test equals the Pearson correlation", detail=f"{coef} vs {want}")
    d2 = pd.DataFrame({"X": [float(v) * 3 + 2 for v in xs], "Y": [float(v) - 7 for v in ys]})
    coef2, p2 = CI.pearsonr("X", "Y", [], d2, boolean=False)
    M.check(abs(float(coef2) - want) <= 1e-9 and abs(p - p2) <= 1e-9, "unconditional test invariant to affine reparametrisation", detail=f"{coef2} vs {want}")
    for a in (0.01, 0.5, 0.99):
        M.check(CI.pearsonr("X", "Y", [], d, boolean=True, significance_level=a) == (p >= a), "boolean verdict equals (p-value >= significance level)")

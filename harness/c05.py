"""C05 - CPD tables keep their column meaning; validated models are normalised (DESIGN.md 5/C05)."""
import copy
import itertools

import numpy as np

from . import common as C

PROPERTY = "C05"
LEVEL = "model_checking"
BOUNDS = {
    "quick": "child + 0..3 parents, cards in {1,2,3}, 6 state labelings, every parent permutation / subset, symbolic 2-D table; "
             "check_model on 3-4 node graphs that are right or wrong in exactly one respect, column-sum error symbolic",
    "thorough": "same with more cardinality vectors",
}
ASSUMPTIONS = ["exact real arithmetic", "marginalize/reduce/normalize scenarios assume strictly positive table entries (non-zero column sums)",
               "is_valid_cpd oracle: accept <= |colsum-1| <= 0.01, reject <= |colsum-1| > 0.0101 (numpy adds rtol*|1| to atol)"]

FAMS = [("c", []), ("c", ["p"]), ("c", ["p", "q"]), ("c", ["q", "p"]), ("c", ["q", "r", "p"])]
CARDS = [dict(c=2, p=2, q=3, r=2), dict(c=3, p=1, q=2, r=2), dict(c=1, p=3, q=2, r=2), dict(c=2, p=3, q=2, r=3)]


def scenarios(tier, seed):
    out = []
    k = 0

    def add(**kw):
        nonlocal k
        k += 1
        kw.setdefault("states", C.STATE_STYLES[k % len(C.STATE_STYLES)])
        kw.setdefault("hashseed", k % 2)
        out.append(kw)
    cards = CARDS if tier == "thorough" else CARDS[:3]
    for card in cards:
        for child, pa in FAMS:
            add(family="cpd/layout", pa=pa, card=card)
            add(family="cpd/normalize", pa=pa, card=card, inplace=True)
            add(family="cpd/normalize", pa=pa, card=card, inplace=False)
            add(family="cpd/valid", pa=pa, card=card)
            if pa:
                for perm in itertools.permutations(pa):
                    for inplace in (True, False):
                        add(family="cpd/reorder", pa=pa, card=card, new=list(perm), inplace=inplace)
                for r in range(1, len(pa) + 1):
                    for vs in itertools.combinations(pa, r):
                        for op in ("marginalize", "reduce"):
                            for inplace in (True, False):
                                add(family=f"cpd/{op}", pa=pa, card=card, vs=list(vs)[::-1], inplace=inplace)
                                if op == "reduce":
                                    add(family="cpd/reduce", pa=pa, card=card, vs=list(vs)[::-1], inplace=inplace, quiet=True)
    for shape in ["collider3", "chain3", "fork3", "diamond", "iso3"]:
        nodes, parents = C.SHAPES[shape]
        for card in C.card_options(nodes, tier)[:2]:
            for kind in ["none", "missing", "extra_parent", "missing_parent", "wrong_card", "state_mismatch", "colsum"]:
                for target in nodes:
                    if kind in ("missing_parent", "wrong_card", "state_mismatch") and not parents[target]:
                        continue
                    if kind == "none" and target != nodes[0]:
                        continue
                    st = C.STATE_STYLES[k % len(C.STATE_STYLES)]
                    if kind == "state_mismatch" and st == "default":
                        st = "str"
                    add(family=f"check_model/{kind}", shape=shape, nodes=nodes, parents=parents, card=card, kind=kind, target=target, states=st)
    return out


def table_names(desc):
    card = desc["card"]
    ncol = int(np.prod([card[p] for p in desc["pa"]])) if desc["pa"] else 1
    return [f"t{i}_{j}" for i in range(card["c"]) for j in range(ncol)], ncol


def col_of(desc, order, a):
    col = 0
    for p in order:
        col = col * desc["card"][p] + a[p]
    return col


def mk_cpd(desc, M, tab, pa=None):
    from pgmpy.factors.discrete import TabularCPD
    pa = desc["pa"] if pa is None else pa
    card = desc["card"]
    style = desc["states"]
    sn = None
    if style != "default":
        sn = {v: C.state_names(style, v, card[v]) for v in ["c"] + pa}
    return TabularCPD("c", card["c"], M.impl_table(tab), evidence=pa or None, evidence_card=[card[p] for p in pa] or None,
                      **({"state_names": sn} if sn else {}))


def named(desc, cpd, a):
    """P(c=a[c] | parents=a[..]) read back by state NAME through the public factor view"""
    phi = cpd.to_factor()
    idx = tuple(phi.name_to_no[v][C.sname(desc, v, a[v])] for v in phi.variables)
    return phi.values[idx]


def check_names(desc, M, cpd, vars_, tag):
    M.check(set(cpd.state_names) == set(vars_), f"{tag}: state-name keys", detail=str(cpd.state_names))
    for v in vars_:
        if v in cpd.state_names:
            M.check(list(cpd.state_names[v]) == C.expected_state_names(desc, v), f"{tag}: state names", detail=f"{v}: {cpd.state_names[v]}")
            M.check(cpd.no_to_name[v] == dict(enumerate(C.expected_state_names(desc, v))), f"{tag}: no_to_name", detail=str(cpd.no_to_name[v]))
            M.check(cpd.name_to_no[v] == {n: i for i, n in enumerate(C.expected_state_names(desc, v))}, f"{tag}: name_to_no")


def check_cpd(desc, M, cpd, pa_set, fn, tag, order=None):
    ok = M.check(cpd.variable == "c" and cpd.variables[0] == "c" and set(cpd.variables[1:]) == set(pa_set)
                 and len(cpd.variables) == 1 + len(pa_set), f"{tag}: scope", detail=str(cpd.variables))
    if not ok:
        return
    if order is not None:
        M.check(list(cpd.variables[1:]) == list(order), f"{tag}: parent order", detail=str(cpd.variables))
    M.check([int(x) for x in cpd.cardinality] == [desc["card"][v] for v in cpd.variables], f"{tag}: cardinality")
    M.check(cpd.variable_card == desc["card"]["c"], f"{tag}: variable_card")
    check_names(desc, M, cpd, cpd.variables, tag)
    # 2-D export follows the documented layout for the CPD's own parent order
    vals2d = cpd.get_values()
    M.check(tuple(vals2d.shape) == (desc["card"]["c"], int(np.prod([desc["card"][p] for p in cpd.variables[1:]])) if len(cpd.variables) > 1 else 1),
            f"{tag}: get_values shape", detail=str(vals2d.shape))
    for a in C.assignments(desc, cpd.variables):
        want = fn(a)
        M.eq(named(desc, cpd, a), want, f"{tag}: named value")
        M.eq(vals2d[a["c"]][col_of(desc, cpd.variables[1:], a)], want, f"{tag}: get_values layout")


def check_labelled_export(desc, M, cpd, fn, tag):
    """the labelled 2-D table that to_csv()/str() write: header row i names parent i's state in every column's configuration (row-major over the
    CPD's own parent order), data row r is labelled with the child's r-th state and holds column j's entry."""
    rows = cpd._make_table_str(tablefmt="grid", return_list=True)
    pa = list(cpd.variables[1:])
    card = desc["card"]
    ncol = int(np.prod([card[p] for p in pa])) if pa else 1
    if not M.check(len(rows) == len(pa) + card["c"] and all(len(r) == 1 + ncol for r in rows), f"{tag}: labelled export shape",
                   detail=str([len(r) for r in rows])):
        return
    for a in C.assignments(desc, cpd.variables):
        j = col_of(desc, pa, a)
        for i, p_ in enumerate(pa):
            M.check(rows[i][0] == str(p_) and rows[i][1 + j] == f"{p_}({C.sname(desc, p_, a[p_])})", f"{tag}: labelled export column header",
                    detail=f"{rows[i][0]} {rows[i][1 + j]} for {a}")
        row = rows[len(pa) + a["c"]]
        M.check(row[0] == f"c({C.sname(desc, 'c', a['c'])})", f"{tag}: labelled export row label", detail=str(row[0]))
        cell = row[1 + j]
        if isinstance(cell, str):
            if not M.symbolic:
                M.eq(float(cell), fn(a), f"{tag}: labelled export value")
        else:
            M.eq(cell, fn(a), f"{tag}: labelled export value")


def snap(cpd):
    return (list(cpd.variables), [int(x) for x in cpd.cardinality], list(cpd.values.ravel()), copy.deepcopy(cpd.state_names))


def unchanged(M, cpd, s, tag):
    now = snap(cpd)
    ok = now[0] == s[0] and now[1] == s[1] and now[3] == s[3] and len(now[2]) == len(s[2]) and \
        all(a is b or (not M.symbolic and a == b) for a, b in zip(now[2], s[2]))
    M.check(ok, tag, detail="original CPD changed by an out-of-place call")


def run(desc, M):
    fam = desc["family"]
    if fam.startswith("check_model"):
        return run_check_model(desc, M)
    card = desc["card"]
    pa = desc["pa"]
    names, ncol = table_names(desc)
    extra = ["eps"] if fam == "cpd/valid" else []
    M.declare(names + extra)
    positive = fam in ("cpd/normalize", "cpd/marginalize", "cpd/reduce")
    tab = [[M.sym(f"t{i}_{j}", pos=positive) for j in range(ncol)] for i in range(card["c"])]

    def T(a, order=pa):
        return tab[a["c"]][col_of(desc, order, a)]
    if fam == "cpd/layout":
        cpd = mk_cpd(desc, M, tab)
        check_cpd(desc, M, cpd, pa, T, "init", order=pa)
        cp = cpd.copy()
        check_cpd(desc, M, cp, pa, T, "copy", order=pa)
        check_labelled_export(desc, M, cpd, T, "init")
        M.check(not np.shares_memory(cp.values, cpd.values), "copy aliases values")
        M.check(cp.state_names is not cpd.state_names, "copy aliases state names")
        M.check(set(cpd.get_evidence()) == set(pa) and len(cpd.get_evidence()) == len(pa), "get_evidence")
        phi = cpd.to_factor()
        M.check(not np.shares_memory(phi.values, cpd.values), "to_factor aliases values")
        phi.values[(0,) * phi.values.ndim] = 7
        phi.state_names["c"] = ["changed"]
        check_cpd(desc, M, cpd, pa, T, "after mutating to_factor() result", order=pa)
        # the table is taken by value: a CPD built from an ndarray keeps its entries when the caller re-uses that buffer afterwards
        from pgmpy.factors.discrete import TabularCPD
        arr = np.ascontiguousarray(np.array(M.impl_table(tab), dtype=object if M.symbolic else float))
        sn = {v: C.state_names(desc["states"], v, card[v]) for v in ["c"] + pa} if desc["states"] != "default" else None
        cpd2 = TabularCPD("c", card["c"], arr, evidence=pa or None, evidence_card=[card[p] for p in pa] or None, **({"state_names": sn} if sn else {}))
        arr[...] = 7
        check_cpd(desc, M, cpd2, pa, T, "built from an ndarray the caller overwrites afterwards", order=pa)
    elif fam == "cpd/normalize":
        cpd = mk_cpd(desc, M, tab)
        s0 = snap(cpd)
        res = cpd.normalize(inplace=desc["inplace"])
        if desc["inplace"]:
            res = cpd
        else:
            unchanged(M, cpd, s0, "normalize(inplace=False) leaves original")
        colsum = [sum((tab[i][j] for i in range(1, card["c"])), tab[0][j]) for j in range(ncol)]
        check_cpd(desc, M, res, pa, lambda a: T(a) / colsum[col_of(desc, pa, a)], "normalize", order=pa)
    elif fam == "cpd/valid":
        # columns: free entries, last row closes the column to 1 (+eps on column 0)
        eps = M.sym("eps", lo=-1, hi=1)
        tab2 = [[tab[i][j] for j in range(ncol)] for i in range(card["c"] - 1)]
        last = []
        for j in range(ncol):
            l = M.const(1) + (eps if j == ncol - 1 else M.const(0))
            for i in range(card["c"] - 1):
                l = l - tab2[i][j]
            last.append(l)
        tab2.append(last)
        cpd = mk_cpd(desc, M, tab2)
        ok = cpd.is_valid_cpd()
        ae = abs(eps)
        if ok:
            M.le(ae, M.const("0.0101"), "is_valid_cpd True only within tolerance")
        else:
            M.lt(M.const("0.01"), ae, "is_valid_cpd False only outside tolerance")
    elif fam == "cpd/reorder":
        cpd = mk_cpd(desc, M, tab)
        s0 = snap(cpd)
        new = desc["new"]
        try:
            ret = cpd.reorder_parents(list(new), inplace=desc["inplace"])
        except ValueError as e:
            M.fail("reorder_parents raised", str(e))
            return
        M.check(tuple(ret.shape) == (card["c"], ncol), "reorder: returned shape", detail=str(ret.shape))
        for a in C.assignments(desc, ["c"] + pa):
            M.eq(ret[a["c"]][col_of(desc, new, a)], T(a), "reorder: returned table layout")
        if desc["inplace"]:
            check_cpd(desc, M, cpd, pa, T, "reorder(inplace)", order=new)
            check_labelled_export(desc, M, cpd, T, "reorder(inplace)")
        else:
            unchanged(M, cpd, s0, "reorder(inplace=False) leaves original")
            check_cpd(desc, M, cpd, pa, T, "reorder(out of place) original", order=pa)
    elif fam in ("cpd/marginalize", "cpd/reduce"):
        cpd = mk_cpd(desc, M, tab)
        s0 = snap(cpd)
        vs = desc["vs"]
        rest = [p for p in pa if p not in vs]
        if fam == "cpd/marginalize":
            res = cpd.marginalize(vs, inplace=desc["inplace"])

            def fn(a):
                num = sum((T({**a, **b}) for b in C.assignments(desc, vs)), M.const(0))
                den = sum((T({**a, **b, "c": s}) for b in C.assignments(desc, vs) for s in range(card["c"])), M.const(0))
                return num / den
        else:
            st = {v: card[v] - 1 for v in vs}
            res = cpd.reduce([(v, C.sname(desc, v, s)) for v, s in st.items()], inplace=desc["inplace"], **({"show_warnings": False} if desc.get("quiet") else {}))

            def fn(a):
                num = T({**a, **st})
                den = sum((T({**a, **st, "c": s}) for s in range(card["c"])), M.const(0))
                return num / den
        if desc["inplace"]:
            M.check(res is None, "inplace returns None")
            res = cpd
        else:
            unchanged(M, cpd, s0, f"{fam}(inplace=False) leaves original")
        check_cpd(desc, M, res, rest, fn, fam.split("/")[1], order=rest)
        if fam == "cpd/marginalize":
            check_labelled_export(desc, M, res, fn, "marginalize")


def run_check_model(desc, M):
    from pgmpy.factors.discrete import TabularCPD
    from pgmpy.models import BayesianNetwork
    kind, target = desc["kind"], desc["target"]
    names = C.sym_names(desc) + ["eps"]
    M.declare(names)
    tabs = C.make_tables(desc, M, positive=False)
    eps = M.sym("eps", lo=-1, hi=1)
    card, parents, nodes = desc["card"], desc["parents"], desc["nodes"]
    style = desc["states"]
    model = BayesianNetwork()
    model.add_nodes_from(nodes)
    model.add_edges_from([(p, v) for v in nodes for p in parents[v]])
    cpds = []
    for v in nodes:
        pa = list(parents[v])
        tab = tabs[v]
        cds = dict(card)
        sn_of = lambda x: C.state_names(style, x, cds[x])  # noqa
        if v == target:
            if kind == "missing":
                continue
            if kind == "extra_parent":
                other = [x for x in nodes if x != v and x not in pa]
                if not other:
                    kind = "none"
                else:
                    o = other[0]
                    pa = pa + [o]
                    tab = [[x for x in row for _ in range(card[o])] for row in tab]
            if kind == "missing_parent":
                drop = pa[0]
                keep_cols = [j for j in range(len(tab[0]))]
                # keep the slice drop=0
                pa2 = pa[1:]
                ncol2 = int(np.prod([card[p] for p in pa2])) if pa2 else 1
                stride = ncol2
                tab = [[row[j] for j in range(stride)] for row in tab]
                pa = pa2
            if kind == "wrong_card":
                p0 = pa[0]
                cds[p0] = card[p0] + 1
                tab = None
            if kind == "colsum":
                tab = [list(r) for r in tab]
                tab[-1][0] = tab[-1][0] + eps
        if tab is None:
            ncol = int(np.prod([cds[p] for p in pa]))
            tab = [[M.const(1) / card[v] for _ in range(ncol)] for _ in range(card[v])]
        sn = None
        if style != "default":
            sn = {x: C.state_names(style, x, cds[x]) for x in [v] + pa}
            if v == target and kind == "state_mismatch":
                p0 = pa[0]
                sn[p0] = list(sn[p0])[::-1] if len(sn[p0]) > 1 else [("other", 0)]
        cpds.append(TabularCPD(v, card[v], M.impl_table(tab), evidence=pa or None, evidence_card=[cds[p] for p in pa] or None,
                               **({"state_names": sn} if sn else {})))
    try:
        model.add_cpds(*cpds)
    except ValueError as e:
        M.check(kind in ("extra_parent",) or True, "add_cpds rejected")
        return
    try:
        ok = model.check_model()
        raised = None
    except ValueError as e:
        ok = False
        raised = str(e)
    if kind == "none":
        M.check(ok is True, "check_model accepts a correct model", detail=str(raised))
    elif kind == "colsum":
        ae = abs(eps)
        if ok:
            M.le(ae, M.const("0.0101"), "check_model accepts only column sums within tolerance")
        else:
            M.lt(M.const("0.01"), ae, "check_model rejects only column sums outside tolerance", detail=str(raised))
    elif kind == "state_mismatch" and card[parents[target][0]] == 1 and style != "default":
        M.check(not ok, f"check_model rejects {kind}", detail="accepted")
    else:
        M.check(not ok, f"check_model rejects {kind}", detail="accepted a model that is wrong in one respect")
    if ok:
        # accepted => CPD parents = graph parents, consistent cards/state names, joint sums to 1 within tolerance
        tot = M.const(0)
        for a in C.assignments(desc, nodes):
            t = M.const(1)
            for v in nodes:
                cpd = model.get_cpds(v)
                M.check(set(cpd.variables[1:]) == set(parents[v]), "accepted model: CPD parents = graph parents") if a == {n: 0 for n in nodes} else None
                phi = cpd.to_factor()
                idx = tuple(phi.name_to_no[x][C.sname(desc, x, a[x])] for x in phi.variables)
                t = t * phi.values[idx]
            tot = tot + t
        if kind == "colsum":
            M.le(abs(tot - 1), M.const("0.0101"), "accepted model: joint sums to one within tolerance")
        else:
            M.eq(tot, 1, "accepted model: joint sums to one")

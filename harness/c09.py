"""C09 - writing a model to a file and reading it back returns the same model (DESIGN.md 5/C09; partial: table layout)."""
import itertools
import os
import tempfile
from fractions import Fraction

import numpy as np

from symx import core, stubs
from . import common as C

PROPERTY = "C09"
LEVEL = "model_checking"
BOUNDS = {
    "quick": "BIF, XMLBIF and UAI writer -> reader (and BayesianNetwork.save/load) on BNs <=4 nodes (UAI also Markov networks), cards in {1,2,3}, 0-3 parents in "
             "non-sorted declared order, identifier names (incl. names containing the keywords 'variable'/'probability'), every table entry a distinct SYMBOL "
             "that the writer prints as a unique numeral token; after re-reading, every named assignment must carry the token of the same symbol",
    "thorough": "more shapes/cardinalities, a 4-parent table with 1296 entries (larger than numpy's print threshold), magnitudes down to 1e-12 (concrete twin)",
}
ASSUMPTIONS = ["this decides WHERE each number lands for all values at once; the text layer itself (regular expressions / pyparsing / ElementTree, number formatting of "
               "extreme magnitudes) is exercised only by the concrete twin", "the NET format is not covered (its writer prints whole arrays with str(ndarray))"]


def scenarios(tier, seed):
    out = []
    k = 0
    shapes = ["single", "pair", "chain3", "collider3", "full3", "iso3", "diamond", "threepar", "collchild"]
    for sname in shapes:
        nodes, parents = C.SHAPES[sname]
        for card in C.card_options(nodes, tier)[: (2 if tier == "quick" else 4)]:
            for fmt in ["bif", "xmlbif", "uai", "bif_file"]:
                k += 1
                out.append(dict(family=f"roundtrip/{fmt}", mode="bn", fmt=fmt, shape=sname, nodes=nodes, parents=parents, card=card, names=["plain", "keyword"][k % 2],
                                hashseed=k % 2))
    for mname, (nodes, scopes) in {"mchain3": (["A", "B", "C"], [["A", "B"], ["C", "B"]]), "mtri": (["A", "B", "C"], [["A", "B"], ["B", "C"], ["C", "A"], ["B"]]),
                                    "munary": (["A", "B", "C"], [["A", "B"], ["C"]])}.items():   # munary: a variable that occurs in a unary factor only
        for card in C.card_options(nodes, tier)[:2]:
            card = {v: max(1, c) for v, c in card.items()}
            out.append(dict(family="roundtrip/uai-mn", mode="mn", fmt="uai", model=mname, nodes=nodes, scopes=scopes, card=card, hashseed=0))
    # two-digit cardinalities (their decimal strings sort differently from the numbers) next to one-digit ones
    for card in (dict(A=10, B=2), dict(A=3, B=11), dict(A=2, B=10, C=3)):
        nodes = sorted(card)
        scopes = [["A", "B"]] + ([["C", "B"]] if "C" in card else [])
        out.append(dict(family="roundtrip/uai-mn", mode="mn", fmt="uai", model="mwide", nodes=nodes, scopes=scopes, card=card, hashseed=0))
        if len(nodes) == 2:
            for fmt in ["uai", "bif", "xmlbif"]:
                out.append(dict(family=f"roundtrip/{fmt}", mode="bn", fmt=fmt, shape="pair", nodes=nodes, parents={"A": [], "B": ["A"]}, card=card, names="plain", hashseed=0))
    # names that ARE format keywords (variables and states)
    for sname in ["pair", "collider3", "chain3"]:
        nodes, parents = C.SHAPES[sname]
        for fmt in ["bif", "xmlbif", "bif_file"]:
            out.append(dict(family=f"roundtrip/{fmt}", mode="bn", fmt=fmt, shape=sname, nodes=nodes, parents=parents, card={v: 2 + (i % 2) for i, v in enumerate(nodes)},
                            names="exactkw", hashseed=0))
    for i in range(6 if tier == "quick" else 16):
        out.append(dict(family="roundtrip/concrete-twin", mode="concrete", variant=i, hashseed=i % 2, concrete_only=True))
    for i in range(2):
        out.append(dict(family="roundtrip/concrete-twin-uai", mode="concrete_uai", variant=i, hashseed=i % 2, concrete_only=True))
    return out


NAMES = {"plain": lambda v: f"n{v.lower()}", "keyword": lambda v: {"A": "myvariable", "B": "probability_b", "C": "network1", "D": "tablevar"}[v],
         "exactkw": lambda v: {"A": "default", "B": "table", "C": "property", "D": "type"}[v]}
KW_STATES = ["default", "table", "discrete"]


class Tokens:
    """every symbol prints as a unique decimal numeral; the numerals of one CPD column sum to one so that validating readers accept the file"""

    def __init__(self):
        self.by_q = {}
        self.by_tok = {}
        self.n = 0

    def column(self, syms):
        vals = []
        for _ in syms[:-1]:
            self.n += 1
            vals.append(Fraction(1000 + 7 * self.n, 10 ** 6))
        last = 1 - sum(vals)
        vals.append(last)
        for s, v in zip(syms, vals):
            tok = f"{float(v):.6f}"
            assert tok not in self.by_tok, tok
            self.by_tok[tok] = s
            self.by_q[s.q if isinstance(s, core.SymReal) else s] = tok
        return vals

    def free(self, s):
        self.n += 1
        v = Fraction(1000 + 7 * self.n, 10 ** 4)
        tok = f"{float(v):.4f}"
        self.by_tok[tok] = s
        self.by_q[s.q if isinstance(s, core.SymReal) else s] = tok
        return v


def run_concrete_uai(desc, M):
    """UAI text layer on the real float code: probabilities spanning 1e-12 .. 1 (printed in scientific notation) and exact 0/1 must come back
    exactly.  One parent per node (the parent-order finding for >= 2 parents is recorded separately); positional names var_i."""
    from pgmpy.factors.discrete import DiscreteFactor, TabularCPD
    from pgmpy.models import BayesianNetwork, MarkovNetwork
    from pgmpy.readwrite import UAIReader, UAIWriter
    M.declare([])
    tiny = [1e-5, 1e-12, 3.5e-7, 0.0]
    if desc["variant"] == 0:
        m = BayesianNetwork([("a", "b"), ("b", "c")])
        m.add_cpds(TabularCPD("a", 2, [[tiny[0]], [1 - tiny[0]]]),
                   TabularCPD("b", 3, [[0.3, tiny[1]], [0.7 - tiny[2], 1 - tiny[1]], [tiny[2], 0.0]], ["a"], [2]),
                   TabularCPD("c", 2, [[1.0, 0.25, tiny[2]], [0.0, 0.75, 1 - tiny[2]]], ["b"], [3]))
        text = str(UAIWriter(m))
        r = UAIReader(string=text).get_model()
        M.check(len(r.nodes()) == 3 and len(r.edges()) == 2, "uai: same number of variables and edges")
        # positional names: match the tables as a multiset (all three tables are different)
        got = sorted(tuple(np.asarray(c.get_values(), dtype=float).ravel().tolist()) for c in r.cpds)
        want = sorted(tuple(np.asarray(c.get_values(), dtype=float).ravel().tolist()) for c in m.cpds)
        M.check(got == want, "uai: every probability is read back exactly (tiny magnitudes, exact 0/1)", detail=f"wrote {want} read {got}")
    else:
        mn = MarkovNetwork([("a", "b"), ("b", "c")])
        f1 = DiscreteFactor(["a", "b"], [2, 2], [tiny[0], 2.0, 1e-9, 40.0])
        f2 = DiscreteFactor(["b", "c"], [2, 3], [1.0, tiny[1], 0.0, 5e-8, 3.0, 0.125])
        mn.add_factors(f1, f2)
        text = str(UAIWriter(mn))
        r = UAIReader(string=text).get_model()
        got = sorted(tuple(np.asarray(f.values, dtype=float).ravel().tolist()) for f in r.get_factors())
        want = sorted(tuple(np.asarray(f.values, dtype=float).ravel().tolist()) for f in (f1, f2))
        M.check(got == want, "uai: every factor value of a Markov network is read back exactly (tiny magnitudes)", detail=f"wrote {want} read {got}")


def run(desc, M):
    if desc["mode"] == "concrete":
        return run_concrete_twin(desc, M)
    if desc["mode"] == "concrete_uai":
        return run_concrete_uai(desc, M)
    from pgmpy.factors.discrete import DiscreteFactor, TabularCPD
    from pgmpy.models import BayesianNetwork, MarkovNetwork
    from pgmpy.readwrite import BIFReader, BIFWriter, UAIReader, UAIWriter, XMLBIFReader, XMLBIFWriter
    nodes, card = desc["nodes"], desc["card"]
    nm = {v: NAMES[desc.get("names", "plain")](v) for v in nodes}
    sn = {v: [f"s{i}{v.lower()}" for i in range(card[v])] for v in nodes}
    if desc.get("names") == "exactkw":
        sn = {v: (KW_STATES[:card[v]] if vi % 2 == 0 else [f"s{i}{v.lower()}" for i in range(card[v])]) for vi, v in enumerate(nodes)}
    T = Tokens()
    if desc["mode"] == "bn":
        parents = desc["parents"]
        names = [f"t{vi}_{i}_{j}" for vi, v in enumerate(nodes) for i in range(card[v]) for j in range(int(np.prod([card[p] for p in parents[v]] or [1])))]
        M.declare(names)
        tabs = {}
        num = {}
        for vi, v in enumerate(nodes):
            ncol = int(np.prod([card[p] for p in parents[v]] or [1]))
            rows = [[M.sym(f"t{vi}_{i}_{j}") for j in range(ncol)] for i in range(card[v])]
            tabs[v] = rows
            for j in range(ncol):
                col = [rows[i][j] for i in range(card[v])]
                vals = T.column(col)
                for i in range(card[v]):
                    num[(v, i, j)] = vals[i]
        model = BayesianNetwork()
        model.add_nodes_from([nm[v] for v in nodes])
        model.add_edges_from([(nm[p], nm[v]) for v in nodes for p in parents[v]])
        for v in nodes:
            pa = parents[v]
            ncol = int(np.prod([card[p] for p in pa] or [1]))
            table = [[(tabs[v][i][j] if M.symbolic else float(num[(v, i, j)])) for j in range(ncol)] for i in range(card[v])]
            model.add_cpds(TabularCPD(nm[v], card[v], table, evidence=[nm[p] for p in pa] or None, evidence_card=[card[p] for p in pa] or None,
                                      state_names={nm[x]: sn[x] for x in [v] + pa}))
    else:
        names = [f"f{i}_{j}" for i, s in enumerate(desc["scopes"]) for j in range(int(np.prod([card[v] for v in s])))]
        M.declare(names)
        model = MarkovNetwork()
        model.add_nodes_from([nm[v] for v in nodes])
        facs = []
        num = {}
        for i, s in enumerate(desc["scopes"]):
            for a, b in itertools.combinations(s, 2):
                model.add_edge(nm[a], nm[b])
            n = int(np.prod([card[v] for v in s]))
            syms = [M.sym(f"f{i}_{j}") for j in range(n)]
            for j, sy in enumerate(syms):
                num[(i, j)] = T.free(sy)
            facs.append((s, syms))
            model.add_factors(DiscreteFactor([nm[v] for v in s], [card[v] for v in s], [sy if M.symbolic else float(num[(i, j)]) for j, sy in enumerate(syms)]))
    # ---- write (symbolic tables, numeral tokens) ...
    restore = None
    if M.symbolic:
        def tok(self):
            return T.by_q.get(self.q, "S?")
        restore = (core.SymReal.__str__, core.SymReal.__repr__)
        core.SymReal.__str__ = tok
        core.SymReal.__repr__ = tok
        core.SymReal.__format__ = lambda self, spec: tok(self)
        stubs._hit("str(SymReal) -> unique numeral token")
    try:
        fmt = desc["fmt"]
        if fmt == "bif":
            txt = str(BIFWriter(model))
        elif fmt == "bif_file":
            fd, path = tempfile.mkstemp(suffix=".bif")
            os.close(fd)
            model.save(path, filetype="bif")
            txt = open(path).read()
        elif fmt == "xmlbif":
            txt = XMLBIFWriter(model).__str__()
            if isinstance(txt, bytes):
                txt = txt.decode()
        else:
            txt = UAIWriter(model).__str__()
    finally:
        if restore:
            core.SymReal.__str__, core.SymReal.__repr__ = restore
            del core.SymReal.__format__
    # ---- ... read back on the plain float backend
    if M.symbolic:
        stubs.uninstall()
    # recorded known findings, recognised by their trigger (everything else is reported):
    #  - BIF reader locates blocks by the substrings "variable"/"probability": names containing them break it
    #  - UAI reader fails on a cardinality-1 variable ("1\n1.0" is mis-tokenised)
    #  - UAI reader takes the parent order of a CPD from a SET of edges (hash-seed dependent): tables with >=2 parents can be misaligned
    known_exc = None
    if fmt in ("bif", "bif_file") and desc.get("names") == "keyword":
        known_exc = "roundtrip/bif:known-keyword-substring-names"
    if fmt == "uai" and min(card.values()) == 1:
        known_exc = "roundtrip/uai:known-cardinality-one"
    try:
        if fmt == "bif":
            m2 = BIFReader(string=txt, n_jobs=1).get_model()
        elif fmt == "bif_file":
            m2 = BayesianNetwork.load(path, filetype="bif", n_jobs=1)
            os.unlink(path)
        elif fmt == "xmlbif":
            m2 = XMLBIFReader(string=txt).get_model()
        else:
            m2 = UAIReader(string=txt).get_model()
    except (IndexError, ValueError, KeyError) as e:
        if known_exc is None:
            raise
        M.fail("reader accepts what the writer produced", f"{type(e).__name__}: {e}", key=known_exc)
        return
    positional = fmt == "uai"
    # UAI files identify variables by position; the writer lists them sorted by (cardinality, name)
    uai_order = sorted(nodes, key=lambda v: (str(card[v]), nm[v]))
    rn = {v: (f"var_{uai_order.index(v)}" if positional else nm[v]) for v in nodes}
    M.check(set(map(str, m2.nodes())) == {rn[v] for v in nodes}, "same variables after the round trip", detail=f"{sorted(map(str, m2.nodes()))}")
    if desc["mode"] == "bn":
        parents = desc["parents"]
        M.check({(str(a), str(b)) for a, b in m2.edges()} == {(rn[p], rn[v]) for v in nodes for p in parents[v]}, "same edges after the round trip",
                detail=str(sorted(m2.edges())))
        for v in nodes:
            cpd = m2.get_cpds(rn[v])
            if not M.check(cpd is not None and set(map(str, cpd.variables[1:])) == {rn[p] for p in parents[v]}, "re-read CPD has the same parents", detail=str(v)):
                continue
            if not positional:
                for x in [v] + parents[v]:
                    M.check(list(map(str, cpd.state_names[rn[x]])) == sn[x], "same state names (as strings) after the round trip", detail=f"{x}: {cpd.state_names[rn[x]]}")
            phi = cpd.to_factor()
            for a in C.assignments(dict(card=card), [v] + parents[v]):
                if positional:
                    idx = tuple(a[[k for k in nodes if rn[k] == str(x)][0]] for x in phi.variables)
                else:
                    idx = tuple(phi.name_to_no[x][sn[[k for k in nodes if rn[k] == str(x)][0]][a[[k for k in nodes if rn[k] == str(x)][0]]]] for x in phi.variables)
                val = float(phi.values[idx])
                col = 0
                for p in parents[v]:
                    col = col * card[p] + a[p]
                kkey = "roundtrip/uai:known-parent-order-from-set" if (fmt == "uai" and len(parents[v]) >= 2) else None
                check_cell(M, T, val, tabs[v][a[v]][col], num[(v, a[v], col)], f"{fmt}: probability of every named assignment is unchanged", f"{v} {a}", key=kkey)
    else:
        facs2 = m2.get_factors()
        M.check(len(facs2) == len(facs), "same number of factors after the round trip")
        for (s, syms), (i, _) in zip(facs, enumerate(facs)):
            cand = [f for f in facs2 if set(map(str, f.variables)) == {rn[v] for v in s}]
            if not M.check(len(cand) >= 1, "factor scope preserved", detail=str(s)):
                continue
            f = cand[0] if len(cand) == 1 else [c for c in cand if True][0]
            for a in C.assignments(dict(card=card), s):
                idx = tuple(a[[k for k in nodes if rn[k] == str(x)][0]] for x in f.variables)
                j = 0
                for v in s:
                    j = j * card[v] + a[v]
                if len(cand) == 1:
                    check_cell(M, T, float(f.values[idx]), syms[j], num[(i, j)], "uai: factor value of every assignment is unchanged", f"{s} {a}", digits=4)
    if M.symbolic:
        M.samples.append(f"{fmt} {desc.get('shape', desc.get('model'))}: every re-read entry carries the token of the symbol written at that named assignment")


def check_cell(M, T, val, sym, numeral, label, detail, digits=6, key=None):
    if M.symbolic:
        tok = f"{val:.{digits}f}"
        got = T.by_tok.get(tok)
        M.check(got is not None and got.q == sym.q, label, key=key, detail=f"{detail}: read {tok} = {got} expected symbol {sym.q}")
    else:
        M.check(abs(val - float(numeral)) <= 1e-9, label, key=key, detail=f"{detail}: read {val!r} expected {float(numeral)!r}")


def run_concrete_twin(desc, M):
    """magnitudes, exact 0/1, large tables: plain numeric round trip (the text layer cannot be encoded)"""
    from pgmpy.factors.discrete import TabularCPD
    from pgmpy.models import BayesianNetwork
    from pgmpy.readwrite import BIFReader, BIFWriter, XMLBIFReader, XMLBIFWriter
    M.declare([])
    v = desc["variant"]
    rng = np.random.default_rng(v)
    big = v % 3 == 2
    pcard = [6, 6, 6, 6] if big else [2, 3]
    pars = [f"p{i}" for i in range(len(pcard))]
    m = BayesianNetwork([(p, "child") for p in pars])
    tiny = [1e-05, 1e-07, 1e-12, 2.5e-07, 1e-09, 3e-10]
    for pi, (p, k) in enumerate(zip(pars, pcard)):
        w = rng.random(k) + 0.1
        w = w / w.sum()
        if pi < 2:
            # "round" tiny probabilities whose repr has an exponent but no decimal point (1e-05, 1e-12, ...), last in the list
            t = tiny[(v + pi) % len(tiny)]
            w = np.array([(1.0 - t) / (k - 1)] * (k - 1) + [t])
            if pi == 1:
                w = w[::-1].copy()
        m.add_cpds(TabularCPD(p, k, w.reshape(k, 1), state_names={p: [f"{p}_s{i}" for i in range(k)]}))
    ncol = int(np.prod(pcard))
    tab = rng.random((3, ncol)) + 0.05
    tab = tab / tab.sum(axis=0)
    if v % 2 == 0:
        tab[:, 0] = [1e-12, 0.5, 0.5 - 1e-12]
        tab[:, 1] = [0.25, 0.0, 0.75]
        tab[:, 2] = [1.0, 0.0, 0.0]
        tab[:, 3] = [0.7, 0.2, 0.1]
        tab[:, 4] = [1e-05, 0.99999 - 1e-07, 1e-07]
    order = pars[::-1] if v % 2 else pars
    sn = {"child": ["lo", "mid", "hi"], **{p: [f"{p}_s{i}" for i in range(k)] for p, k in zip(pars, pcard)}}
    cpd0 = TabularCPD("child", 3, tab, evidence=pars, evidence_card=pcard, state_names=sn)
    if order != pars:
        cpd0.reorder_parents(order)
    m.add_cpds(cpd0)
    from pgmpy.readwrite.NET import NETReader, NETWriter
    for fmt in ("bif", "xmlbif", "net"):
        if fmt == "bif":
            m2 = BIFReader(string=str(BIFWriter(m)), n_jobs=1).get_model()
        elif fmt == "net":
            m2 = NETReader(string=str(NETWriter(m))).get_model()
        else:
            s = XMLBIFWriter(m).__str__()
            m2 = XMLBIFReader(string=s.decode() if isinstance(s, bytes) else s).get_model()
        M.check(set(m2.nodes()) == set(m.nodes()) and set(m2.edges()) == set(m.edges()), f"{fmt}: same variables and edges")
        worst = 0.0
        nbad = 0
        first = ""
        for var in ["child"] + pars:
            c2 = m2.get_cpds(var).to_factor()
            c1 = m.get_cpds(var).to_factor()
            for st in itertools.product(*[sn[x] for x in c1.variables]):
                a = dict(zip(c1.variables, st))
                x1 = float(c1.get_value(**a))
                x2 = float(c2.get_value(**{k: str(s_) for k, s_ in a.items()}))
                if (x1 != x2) if fmt != "net" else (abs(x1 - x2) > 1e-4):
                    nbad += 1
                    first = first or f"{var} {a}: wrote {x1!r} read {x2!r}"
                worst = max(worst, abs(x1 - x2))
        # BIF and XMLBIF print Python's shortest round-trip repr of every float: the round trip is EXACT
        M.check(nbad == 0, f"{fmt}: probability of every named assignment is {'unchanged to four decimals' if fmt == 'net' else 'exactly unchanged'} "
                           f"(magnitudes 1e-12..1, exact 0/1, {ncol * 3} entries)",
                detail=f"{nbad} entries differ, max abs diff {worst}; first: {first}")

"""C13 - interventions follow the truncated factorisation (DESIGN.md 5/C13)."""
import itertools
from fractions import Fraction

import numpy as np

from symx import oracles as O
from . import common as C

PROPERTY = "C13"
LEVEL = "model_checking"
BOUNDS = {
    "quick": "BN <=4 nodes, all CPD entries symbolic and >0 (bp back-end: 2 symbolic CPDs on 4-node shapes); do-sets of size 1-2 incl. parent-child pairs; "
             "query variables outside the do-set and its parents; default adjustment set, every enumerated back-door set and the minimal set; "
             "criteria: every DAG on <=4 nodes in topological order, every (X,Y), every Z among non-descendants of X, one optional latent",
    "thorough": "more cardinalities, all-symbolic bp, 5-node DAG sample for the criteria",
}
ASSUMPTIONS = ["exact real arithmetic", "strictly positive CPD entries", "string node names (the engine passes state names as keyword arguments)"]

DO_SHAPES = {
    "confounded": (["Z", "X", "Y"], {"Z": [], "X": ["Z"], "Y": ["X", "Z"]}),
    "chain3": (["A", "B", "C"], {"A": [], "B": ["A"], "C": ["B"]}),
    "collider3": (["A", "B", "C"], {"A": [], "B": [], "C": ["B", "A"]}),
    "confounded4": (["Z", "W", "X", "Y"], {"Z": [], "W": [], "X": ["Z", "W"], "Y": ["Z", "X"]}),
    "mediator": (["Z", "X", "M", "Y"], {"Z": [], "X": ["Z"], "M": ["X"], "Y": ["M", "Z"]}),
    "diamond": (["A", "B", "C", "D"], {"A": [], "B": ["A"], "C": ["A"], "D": ["C", "B"]}),
    "frontdoor": (["U", "X", "M", "Y"], {"U": [], "X": ["U"], "M": ["X"], "Y": ["M", "U"]}),
    "iso": (["A", "B", "C"], {"A": [], "B": ["A"], "C": []}),
    "mixedkids": (["P", "X", "M", "Y"], {"P": [], "X": ["P"], "M": ["X"], "Y": ["X", "P"]}),
}


def scenarios(tier, seed):
    out = []
    k = 0
    for sname, (nodes, parents) in DO_SHAPES.items():
        for card in C.card_options(nodes, tier)[:2]:
            if min(card.values()) < 2:
                card = {v: max(2, c) for v, c in card.items()}
            # do() on the model
            for r in (1, 2):
                for xs in itertools.combinations(nodes, r):
                    k += 1
                    if tier == "quick" and r == 2 and k % 2:
                        continue
                    out.append(dict(family="do/model", mode="do", shape=sname, nodes=nodes, parents=parents, card=card, xs=list(xs), inplace=(k % 2 == 0),
                                    states=C.STATE_STYLES[k % len(C.STATE_STYLES)], hashseed=k % 2))
            # interventional queries
            for r in (1, 2):
                for xs in itertools.combinations(nodes, r):
                    banned = set(xs) | {p for x in xs for p in parents[x]}
                    ys = [v for v in nodes if v not in banned]
                    for y in ys:
                        for algo in ("ve", "bp"):
                            k += 1
                            if algo == "bp" and (sname in ("iso",) or k % 2):
                                continue
                            if tier == "quick" and r == 2 and k % 3:
                                continue
                            d = dict(family=f"query/{algo}", mode="query", shape=sname, nodes=nodes, parents=parents, card=card, xs=list(xs), y=y, algo=algo,
                                     xstate=k, states=C.STATE_STYLES[k % len(C.STATE_STYLES)], hashseed=k % 2, budget_s=60, adj="default")
                            if algo == "bp" and len(nodes) == 4 and tier == "quick":
                                d["fixed_cpds"] = [nodes[(k + 1) % 4], nodes[(k + 2) % 4]]
                                d["fixed_seed"] = k
                            out.append(d)
                            if r == 1 and algo == "ve":
                                out.append(dict(d, family="query/ve-adjsets", adj="enumerated"))
                    if r == 1 and len(ys) >= 2:
                        for y1, y2 in itertools.permutations(ys, 2):
                            k += 1
                            out.append(dict(family="query/pair", mode="query", shape=sname, nodes=nodes, parents=parents, card=card, xs=list(xs), y=y1, y2=y2,
                                            algo=["ve", "bp"][k % 2] if sname != "iso" else "ve", xstate=k, states=C.STATE_STYLES[k % len(C.STATE_STYLES)],
                                            hashseed=k % 2, budget_s=60, adj="default",
                                            **(dict(fixed_cpds=[nodes[(k + 1) % 4], nodes[(k + 2) % 4]], fixed_seed=k) if len(nodes) == 4 and tier == "quick" else {})))
    # criteria on all small DAGs
    for n in (3, 4):
        pairs = [(u, v) for u in range(n) for v in range(u + 1, n)]
        for mask in range(1 << len(pairs)):
            edges = [pairs[i] for i in range(len(pairs)) if mask >> i & 1]
            k += 1
            out.append(dict(family=f"criteria/n{n}", mode="criteria", n=n, edges=edges, latent=(None if k % 3 else k % n), hashseed=k % 2))
    # five nodes with one latent variable (latent mediators / confounders need the extra node): seeded sample + graphs forced to contain
    # a latent chain u -> L -> w
    import random as _r
    rq = _r.Random(1000 + seed)
    pairs5 = [(u, v) for u in range(5) for v in range(u + 1, 5)]
    for i in range(70 if tier == "quick" else 400):
        edges = [p for p in pairs5 if rq.random() < 0.4]
        lat = rq.randrange(5)
        if i % 2 == 0:
            lat = rq.randrange(1, 4)
            u = rq.randrange(0, lat)
            w = rq.randrange(lat + 1, 5)
            edges = sorted(set(edges) | {(u, lat), (lat, w)})
        out.append(dict(family="criteria/n5-latent", mode="criteria", n=5, edges=[list(e) for e in edges], latent=lat, hashseed=i % 2, budget_s=60))
    # latent mediator below the cause: 1 -> L(2) -> 3 with every combination of the remaining edges
    free = [p for p in pairs5 if p not in ((1, 2), (2, 3))]
    for mask in range(0, 1 << len(free)):
        edges = [(1, 2), (2, 3)] + [free[i] for i in range(len(free)) if mask >> i & 1]
        out.append(dict(family="criteria/n5-latent-mediator", mode="criteria", n=5, edges=[list(e) for e in sorted(edges)], latent=2, hashseed=mask % 2, budget_s=60))
    if tier == "thorough":
        import random
        rnd = random.Random(seed)
        pairs = [(u, v) for u in range(5) for v in range(u + 1, 5)]
        for _ in range(120):
            edges = [p for p in pairs if rnd.random() < 0.45]
            out.append(dict(family="criteria/n5", mode="criteria", n=5, edges=edges, latent=None, hashseed=0, budget_s=200))
    # adjustment strata of probability zero (a zero entry in the CPD of an adjustment variable): both back-ends, concrete tables
    for eng in ("ve", "bp"):
        for v in range(2):
            out.append(dict(family="query/zero-stratum", mode="zerostratum", engine=eng, variant=v, hashseed=v, concrete_only=True))
    return out


def run(desc, M):
    return {"do": run_do, "query": run_query, "criteria": run_criteria, "zerostratum": run_zero_stratum}[desc["mode"]](desc, M)


def run_zero_stratum(desc, M):
    """Z -> X, Z -> Y, X -> Y with P(Z = last state) = 0: P(Y | do(X = x)) = sum_z P(z) P(Y | x, z) - the impossible stratum contributes nothing"""
    from pgmpy.factors.discrete import TabularCPD
    from pgmpy.inference import CausalInference
    from pgmpy.models import BayesianNetwork
    M.declare([])
    v = desc["variant"]
    pz = [Fraction(1, 4), Fraction(3, 4), Fraction(0)] if v == 0 else [Fraction(0), Fraction(1)]
    kz = len(pz)
    px = [[Fraction(1 + i, 5) for i in range(kz)], [1 - Fraction(1 + i, 5) for i in range(kz)]]
    py = [[Fraction(1 + (2 * i + 3 * j) % 7, 9) for i in range(2) for j in range(kz)]]
    py.append([1 - t for t in py[0]])
    m = BayesianNetwork([("Z", "X"), ("Z", "Y"), ("X", "Y")])
    m.add_cpds(TabularCPD("Z", kz, [[float(t)] for t in pz]), TabularCPD("X", 2, [[float(t) for t in r] for r in px], ["Z"], [kz]),
               TabularCPD("Y", 2, [[float(t) for t in r] for r in py], ["X", "Z"], [2, kz]))
    ci = CausalInference(m)
    for x in range(2):
        res = ci.query(["Y"], do={"X": x}, inference_algo=desc["engine"], show_progress=False)
        for y in range(2):
            want = sum(pz[z] * py[y][x * kz + z] for z in range(kz))
            got = float(res.values[y])
            M.check(abs(got - float(want)) <= 1e-9, "interventional query equals the truncated factorisation when an adjustment stratum has probability zero",
                    detail=f"{desc['engine']}: P(Y={y} | do(X={x})) = {got!r}, want {float(want)!r}")


def read_cpd(desc, nm, cpd, a):
    inv = {nm[v]: v for v in desc["nodes"]}
    phi = cpd.to_factor()
    idx = tuple(phi.name_to_no[x][C.sname(desc, inv[x], a[inv[x]])] for x in phi.variables)
    return phi.values[idx]


def run_do(desc, M):
    M.declare(C.sym_names(desc))
    tabs = C.make_tables(desc, M, positive=True)
    model, nm = C.build_bn(desc, M, tabs)
    nodes, parents, card = desc["nodes"], desc["parents"], desc["card"]
    xs = desc["xs"]
    edges0 = set(model.edges())
    cp0 = {v: list(model.get_cpds(nm[v]).values.ravel()) for v in nodes}
    res = model.do([nm[x] for x in xs], inplace=desc["inplace"])
    target = model if desc["inplace"] else res
    if desc["inplace"]:
        M.check(res is model or res is None or set(res.edges()) == set(model.edges()), "do(inplace=True) modifies the model itself")
    want_edges = {(nm[p], nm[v]) for v in nodes for p in parents[v] if v not in xs}
    M.check(set(target.edges()) == want_edges, "do() removes exactly the incoming edges of the intervened nodes", detail=f"{sorted(target.edges())}")
    M.check(set(target.nodes()) == {nm[v] for v in nodes}, "do() keeps all nodes")
    for v in nodes:
        cpd = target.get_cpds(nm[v])
        if v in xs:
            M.check(list(cpd.variables) == [nm[v]], "intervened node gets a parent-free CPD", detail=str(cpd.variables))
            tot = None
            for s in range(card[v]):
                val = read_cpd(desc, nm, cpd, {v: s})
                M.lt(M.const(0), val, "parent-free CPD is positive") if False else None
                tot = val if tot is None else tot + val
            M.eq(tot, 1, "parent-free CPD is normalised")
            M.check(list(cpd.state_names[nm[v]]) == C.expected_state_names(desc, v), "intervened node keeps its state names")
        else:
            M.check(set(cpd.variables[1:]) == {nm[p] for p in parents[v]}, "other CPDs keep their parents")
            for a in C.assignments(desc, [v] + parents[v]):
                M.eq(read_cpd(desc, nm, cpd, a), tabs[v][a[v]][C.col_index(desc, v, a)], "other CPDs are left untouched")
    try:
        M.check(target.check_model() is True, "model after do() validates")
    except ValueError as e:
        M.fail("model after do() validates", str(e))
    if not desc["inplace"]:
        M.check(set(model.edges()) == edges0, "do(inplace=False) leaves the original graph")
        for v in nodes:
            now = list(model.get_cpds(nm[v]).values.ravel())
            M.check(len(now) == len(cp0[v]) and all(x is y or (not M.symbolic and x == y) for x, y in zip(now, cp0[v])),
                    "do(inplace=False) leaves the original CPDs", detail=str(v))


def truncated(desc, tabs, xs, xstate, y, ystate):
    """sum over the rest of prod_{v not in X} theta_v(...) with X = x and Y = ystate"""
    nodes = desc["nodes"]
    rest = [v for v in nodes if v not in xs and v != y]
    tot = None
    for b in C.assignments(desc, rest):
        a = {**b, **xstate, y: ystate}
        t = None
        for v in nodes:
            if v in xs:
                continue
            x = tabs[v][a[v]][C.col_index(desc, v, a)]
            t = x if t is None else t * x
        tot = t if tot is None else tot + t
    return tot


def truncated2(desc, tabs, xs, xstate, fixed):
    nodes = desc["nodes"]
    rest = [v for v in nodes if v not in xs and v not in fixed]
    tot = None
    for b in C.assignments(desc, rest):
        a = {**b, **xstate, **fixed}
        t = None
        for v in nodes:
            if v in xs:
                continue
            x = tabs[v][a[v]][C.col_index(desc, v, a)]
            t = x if t is None else t * x
        tot = t if tot is None else tot + t
    return tot


def run_query(desc, M):
    from pgmpy.inference import CausalInference
    M.declare(C.sym_names(desc))
    tabs = C.make_tables(desc, M, positive=True)
    model, nm = C.build_bn(desc, M, tabs)
    nodes, parents, card = desc["nodes"], desc["parents"], desc["card"]
    xs, y = desc["xs"], desc["y"]
    xstate = {x: (desc["xstate"] + i) % card[x] for i, x in enumerate(xs)}
    do = {nm[x]: C.sname(desc, x, s) for x, s in xstate.items()}
    ci = CausalInference(model)
    adjs = [None]
    if desc["adj"] == "enumerated":
        x = xs[0]
        try:
            sets_ = list(ci.get_all_backdoor_adjustment_sets(nm[x], nm[y]))
        except ValueError:
            sets_ = []
        adjs = [set(s) for s in sets_ if isinstance(s, frozenset)] if sets_ and isinstance(next(iter(sets_), None), frozenset) else ([set()] if sets_ == [] else [set()])
        ms = ci.get_minimal_adjustment_set(nm[x], nm[y]) if not model.has_edge(nm[x], nm[y]) and not model.has_edge(nm[y], nm[x]) else None
        if ms is not None:
            adjs.append(set(ms))
    # recorded known finding: for JOINT interventions the engine adjusts for the union of the do-variables' parents with the
    # marginal P(parents); when a do-variable (or one of its descendants) is itself such a parent this is not the truncated
    # factorisation (the adjustment state even overrides the do value).  Recognised structurally, everything else is reported.
    def _desc(a, b):  # b is a proper descendant of a
        ch = [v for v in nodes if a in parents[v]]
        return any(c == b or _desc(c, b) for c in ch)
    known = None
    if len(xs) >= 2 and any(p in xs or any(_desc(x2, p) for x2 in xs if x2 != x1) for x1 in xs for p in parents[x1]):
        known = f"query/{desc['algo']}:known-joint-intervention-parent-adjustment"
    if desc.get("y2"):
        y2 = desc["y2"]
        res = ci.query([nm[y], nm[y2]], do=do, inference_algo=desc["algo"], show_progress=False)
        if M.check(set(res.variables) == {nm[y], nm[y2]}, "interventional query scope (two variables)", detail=str(res.variables)):
            for s1 in range(card[y]):
                for s2 in range(card[y2]):
                    idx = tuple(res.name_to_no[v_][C.sname(desc, {nm[y]: y, nm[y2]: y2}[v_], {nm[y]: s1, nm[y2]: s2}[v_])] for v_ in res.variables)
                    M.eq(res.values[idx], truncated2(desc, tabs, xs, xstate, {y: s1, y2: s2}), "P(Y1, Y2 | do(X=x)) equals the truncated factorisation",
                         key=known, detail=f"{y},{y2}")
        return
    for adj in adjs:
        kw = {} if adj is None else {"adjustment_set": adj}
        res = ci.query([nm[y]], do=do, inference_algo=desc["algo"], show_progress=False, **kw)
        if not M.check(list(res.variables) == [nm[y]], "interventional query scope", detail=str(res.variables)):
            continue
        M.check(list(res.state_names[nm[y]]) == C.expected_state_names(desc, y), "interventional query state names")
        for s in range(card[y]):
            got = res.values[res.name_to_no[nm[y]][C.sname(desc, y, s)]]
            want = truncated(desc, tabs, xs, xstate, y, s)
            M.eq(got, want, "P(Y | do(X=x)) equals the truncated factorisation", key=known, detail=f"adjustment={adj}")
    if M.symbolic:
        M.samples.append(f"P({y} | do({xstate})) with adjustment sets {adjs} == sum over rest of prod_(v not in X) theta_v")


def run_criteria(desc, M):
    from pgmpy.inference import CausalInference
    from pgmpy.models import BayesianNetwork
    M.declare([])
    n = desc["n"]
    names = ["A", "B", "C", "D", "E"][:n]
    E = {(u, v): ((u, v) in [tuple(e) for e in desc["edges"]]) for u in range(n) for v in range(u + 1, n)}
    lat = desc["latent"]
    model = BayesianNetwork()
    model.add_nodes_from(names)
    model.add_edges_from([(names[u], names[v]) for u, v in desc["edges"]])
    if lat is not None:
        model.latents = {names[lat]}
    ci = CausalInference(model)
    D = [[O.eval_bool(O.descendants_or_self(E, n)[a][b]) for b in range(n)] for a in range(n)]

    def dconn(Emod, x, y, Z):
        return O.eval_bool(O.dconnected_def(Emod, n, x, y, set(Z)))
    for x in range(n):
        # graph with the outgoing edges of x removed: back-door paths are exactly the remaining connections of x
        Eb = {k: (v and k[0] != x) for k, v in E.items()}
        for y in range(n):
            if y == x or lat in (x, y):
                continue  # cause and effect are observed variables
            nondesc = [v for v in range(n) if v not in (x, y) and not D[x][v]]
            for r in range(len(nondesc) + 1):
                for Z in itertools.combinations(nondesc, r):
                    got = ci.is_valid_backdoor_adjustment_set(names[x], names[y], [names[z] for z in Z])
                    want = not dconn(Eb, x, y, Z)
                    M.check(bool(got) == want, "is_valid_backdoor_adjustment_set agrees with the back-door criterion (Z among non-descendants)",
                            detail=f"{desc['edges']} X={names[x]} Y={names[y]} Z={[names[z] for z in Z]}: got {got}")
            if lat in (x, y):
                continue
            try:
                sets_ = ci.get_all_backdoor_adjustment_sets(names[x], names[y])
            except ValueError:
                sets_ = None
            if sets_ is not None:
                fam = [sets_] if (isinstance(sets_, frozenset) and len(sets_) == 0) else list(sets_)
                for S in fam:
                    S = set(S)
                    Zi = [names.index(s) for s in S]
                    M.check(all(not D[x][z] for z in Zi), "enumerated back-door set contains no descendant of X", detail=f"{S}")
                    M.check(lat is None or names[lat] not in S, "enumerated back-door set contains no latent variable", detail=f"{S}")
                    M.check(not dconn(Eb, x, y, Zi), "enumerated back-door set blocks every back-door path", detail=f"{desc['edges']} X={names[x]} Y={names[y]} Z={S}")
            else:
                # engine claims no valid set exists among observed non-descendants: confirm
                cand = [v for v in range(n) if v not in (x, y) and not D[x][v] and v != lat]
                exists = any(not dconn(Eb, x, y, Z) for r in range(len(cand) + 1) for Z in itertools.combinations(cand, r))
                M.check(not exists, "engine reports 'no valid adjustment set' only when none exists", detail=f"{desc['edges']} X={names[x]} Y={names[y]}")
            # front-door sets
            fsets = ci.get_all_frontdoor_adjustment_sets(names[x], names[y])
            paths = directed_paths(E, n, x, y)
            for S in fsets:
                Zi = [names.index(s) for s in S]
                M.check(bool(paths) and all(any(z in p for z in Zi) for p in paths), "front-door set intercepts all directed paths X->Y", detail=f"{S}")
                for z in Zi:
                    M.check(not dconn(Eb, x, z, []), "front-door: no unblocked back-door path from X to Z", detail=f"{desc['edges']} X={names[x]} Z={names[z]}")
                    Ez = {k: (v and k[0] != z) for k, v in E.items()}
                    M.check(not dconn(Ez, z, y, [x]), "front-door: back-door paths from Z to Y blocked by X", detail=f"{desc['edges']} {S}")
            # minimal adjustment set via the proper back-door graph
            if not E[(min(x, y), max(x, y))]:
                ms = ci.get_minimal_adjustment_set(names[x], names[y])
                if ms is not None:
                    # forbidden nodes of the adjustment criterion: nodes on a directed path X ~> Y (other than X) and their descendants
                    onpath = {v for p in paths for v in p[1:]}
                    forbidden = {d for v in onpath for d in range(n) if D[v][d]}
                    bad = [s_ for s_ in ms if names.index(s_) in forbidden]
                    key = None
                    if bad and all(names.index(s_) in onpath for s_ in bad):
                        key = "criteria:known-minimal-adjustment-set-contains-mediator"
                    M.check(not bad, "minimal adjustment set contains no mediator / descendant of a mediator (adjusting for it would block the causal path)",
                            detail=f"{desc['edges']} latent={None if lat is None else names[lat]} X={names[x]} Y={names[y]}: {ms}", key=key)
                    M.check(lat is None or names[lat] not in ms, "minimal adjustment set contains no latent variable", detail=f"{ms}")
                if ms is not None and lat is None:
                    # proper back-door graph: remove the first edge of every directed path x ~> y
                    Ep = dict(E)
                    for p in paths:
                        Ep[(p[0], p[1])] = False
                    Zi = [names.index(s) for s in ms]
                    M.check(not dconn(Ep, x, y, Zi), "minimal adjustment set separates X and Y in the proper back-door graph", detail=f"{desc['edges']} {ms}")
                    M.check(bool(ci.is_valid_adjustment_set([names[x]], [names[y]], list(ms))), "is_valid_adjustment_set accepts the minimal set")


def directed_paths(E, n, x, y):
    out = []

    def rec(path):
        u = path[-1]
        if u == y:
            out.append(list(path))
            return
        for v in range(u + 1, n):
            if E[(u, v)]:
                rec(path + [v])
    if x < y:
        rec([x])
    return out

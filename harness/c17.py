"""C17 - dynamic-network inference equals inference on the unrolled network (DESIGN.md 5/C17)."""
import itertools

import numpy as np

PROPERTY = "C17"
LEVEL = "model_checking"
BUDGET = {"quick": 200, "thorough": 1200}
BOUNDS = {
    "quick": "two-slice templates with 1-2 hidden variables per slice plus observations (cards 2-3), one or two interface nodes, intra and inter edges; "
             "1-2 symbolic CPDs (all symbolic on the HMM template), the rest fixed rationals; query times 0..3, evidence on interface and "
             "non-interface nodes in up to two slices; forward, backward (smoothing) and query(); get_constant_bn and initialize_initial_state "
             "compared entry-wise by state name with the template",
    "thorough": "all CPDs symbolic where the scenario finishes, query times 0..4, more evidence patterns",
}
ASSUMPTIONS = ["exact real arithmetic", "strictly positive CPD entries", "default integer state names (the DBN API addresses nodes as (name, slice) tuples)"]

# template: nodes (name -> card), intra edges (within a slice), inter edges (slice 0 -> slice 1), declared parent order per node
TEMPLATES = {
    "hmm": dict(card=dict(Z=2, X=2, Y=2), intra=[("Z", "X"), ("Z", "Y")], inter=[("Z", "Z")]),
    "hmm3": dict(card=dict(Z=2, Y=3), intra=[("Z", "Y")], inter=[("Z", "Z")]),
    "two_iface": dict(card=dict(A=2, B=2, O=2), intra=[("A", "B"), ("B", "O")], inter=[("A", "A"), ("B", "B")]),
    "cross": dict(card=dict(A=2, B=3, O=2), intra=[("B", "O"), ("A", "O")], inter=[("A", "A"), ("A", "B"), ("B", "B")]),
    "obs2par": dict(card=dict(A=3, B=2, O=2), intra=[("B", "O"), ("A", "O")], inter=[("A", "A"), ("B", "B")]),
    "root3": dict(card=dict(Z=2, R=3, O=2), intra=[("R", "O"), ("Z", "O")], inter=[("Z", "Z")]),
    # inter-slice edge between DIFFERENT variables only (A0 -> B1), B has no self transition
    "xonly": dict(card=dict(A=2, B=2, O=2), intra=[("B", "O")], inter=[("A", "B"), ("A", "A")]),
    # CPD of O declares its parents in the opposite order of edge insertion
    "revpar": dict(card=dict(A=2, B=3, O=2), intra=[("B", "O"), ("A", "O")], inter=[("A", "A"), ("B", "B")], rev_cpd_parents=True),
    # string state names, evidence given by name
    "named": dict(card=dict(Z=2, Y=3), intra=[("Z", "Y")], inter=[("Z", "Z")], state_names=True),
}


def scenarios(tier, seed):
    out = []
    k = 0
    for tname, t in TEMPLATES.items():
        names = list(t["card"])
        cpd_ids = cpd_list(t)
        for mode in ("forward", "backward", "query"):
            for T in ((1, 2, 3) if tier == "quick" else (1, 2, 3, 4)):
                if tier == "quick" and T == 3 and tname not in ("hmm", "hmm3"):
                    continue
                qsets = [[(v, T)] for v in names] + [[(names[0], 0), (names[-1], T)]]
                if T >= 2:
                    qsets.append([(names[0], 1), (names[0], T)])
                    qsets.append([(names[-1], 1), (names[0], T - 1), (names[-1], T)])
                evs = [{}, {(names[-1], 0): 0}, {(names[-1], T): 1, (names[-1], 0): 0}, {(names[0], 1): 1}, {(names[0], min(T, 1)): 0, (names[-1], T): 1}]
                for q in qsets:
                    for ev in evs:
                        k += 1
                        if any(x in ev for x in q):
                            continue
                        if tier == "quick" and k % 6:
                            continue
                        ev2 = {key: s % t["card"][key[0]] for key, s in ev.items()}
                        nsym = 1 + (k % 2)
                        sym = [cpd_ids[(k + i) % len(cpd_ids)] for i in range(nsym)]
                        if tname == "hmm" and k % 8 == 0:
                            sym = list(cpd_ids)
                        out.append(dict(family=f"dbn/{mode}/{tname}", mode=mode, template=tname, T=T, q=[list(x) for x in q],
                                        ev=[[list(key), s] for key, s in ev2.items()], sym=sym, fixed_seed=k, hashseed=k % 2, budget_s=60,
                                        cost=len(sym) * 10 + T))
        # two questions on ONE inference object: same slice-0 evidence variables, different states (no stale caches)
        obs = names[-1]
        for T in (1, 2):
            for qv in names[:2]:
                k += 1
                out.append(dict(family=f"dbn/sequence/{tname}", mode="sequence", template=tname, T=T, q=[[qv, T]], ev=[[[obs, 0], 0]], ev2=[[[obs, 0], 1]],
                                sym=[cpd_ids[k % len(cpd_ids)]], fixed_seed=k, hashseed=k % 2, budget_s=60, cost=20))
        out.append(dict(family="dbn/structure", mode="structure", template=tname, T=1, q=[], ev=[], sym=list(cpd_ids), fixed_seed=3, hashseed=0))
    return out


def cpd_list(t):
    """ids of template CPDs: ('init', v) for slice-0 CPDs of every node, ('trans', v) for nodes with inter-slice parents"""
    ids = [f"init:{v}" for v in t["card"]]
    ids += [f"trans:{v}" for v in t["card"] if any(c == v for p, c in t["inter"])]
    return ids


def parents_of(t, v, which):
    """declared parent list [(name, slice)] of node v: which='init' -> slice-0 CPD, 'trans' -> slice-1 CPD with inter parents"""
    intra = [p for p, c in t["intra"] if c == v]
    if t.get("rev_cpd_parents"):
        intra = intra[::-1]
    if which == "init":
        return [(p, 0) for p in intra]
    inter = [p for p, c in t["inter"] if c == v]
    return [(p, 1) for p in intra] + [(p, 0) for p in inter]


def make_cpds(desc, M):
    import random
    from fractions import Fraction
    t = TEMPLATES[desc["template"]]
    rnd = random.Random(desc["fixed_seed"])
    tabs = {}
    names = []
    for cid in cpd_list(t):
        which, v = cid.split(":")
        pa = parents_of(t, v, which)
        k = t["card"][v]
        ncol = int(np.prod([t["card"][p[0]] for p in pa])) if pa else 1
        if cid in desc["sym"]:
            names += [f"{which[0]}{v}_{i}_{j}" for i in range(k - 1) for j in range(ncol)]
    M.declare(names)
    for cid in cpd_list(t):
        which, v = cid.split(":")
        pa = parents_of(t, v, which)
        k = t["card"][v]
        ncol = int(np.prod([t["card"][p[0]] for p in pa])) if pa else 1
        if cid in desc["sym"]:
            rows = [[M.sym(f"{which[0]}{v}_{i}_{j}", pos=True) for j in range(ncol)] for i in range(k - 1)]
            last = []
            for j in range(ncol):
                l = M.const(1)
                for i in range(k - 1):
                    l = l - rows[i][j]
                M.assume(l > 0, None)
                M.mark_pos(l)
                last.append(l)
            rows.append(last)
        else:
            cols = []
            for j in range(ncol):
                w = [rnd.randint(1, 9) for _ in range(k)]
                cols.append([Fraction(x, sum(w)) for x in w])
            rows = [[M.const(cols[j][i]) for j in range(ncol)] for i in range(k)]
        tabs[cid] = (pa, rows)
    return tabs


def build_dbn(desc, M, tabs, use_init_state=True):
    from pgmpy.factors.discrete import TabularCPD
    from pgmpy.models import DynamicBayesianNetwork as DBN
    t = TEMPLATES[desc["template"]]
    dbn = DBN()
    dbn.add_nodes_from(list(t["card"]))
    dbn.add_edges_from([((p, 0), (c, 0)) for p, c in t["intra"]] + [((p, 0), (c, 1)) for p, c in t["inter"]])
    cpds = []
    for cid, (pa, rows) in tabs.items():
        which, v = cid.split(":")
        node = (v, 0 if which == "init" else 1)
        kw = {}
        if t.get("state_names"):
            kw["state_names"] = {x: [f"{x[0].lower()}{i}" for i in range(t["card"][x[0]])] for x in [node] + list(pa)}
        cpds.append(TabularCPD(node, t["card"][v], M.impl_table(rows), evidence=pa or None, evidence_card=[t["card"][p[0]] for p in pa] or None, **kw))
    if not use_init_state:
        # also give the slice-1 copies of purely intra CPDs explicitly
        for v in t["card"]:
            if f"trans:{v}" not in tabs:
                pa, rows = tabs[f"init:{v}"]
                pa1 = [(p[0], 1) for p in pa]
                cpds.append(TabularCPD((v, 1), t["card"][v], M.impl_table(rows), evidence=pa1 or None, evidence_card=[t["card"][p[0]] for p in pa1] or None))
    dbn.add_cpds(*cpds)
    if use_init_state:
        dbn.initialize_initial_state()
    return dbn


def unrolled_joint(desc, tabs, T):
    """dict: assignment tuple over [(v, s) for s in 0..T for v in names] -> value"""
    t = TEMPLATES[desc["template"]]
    names = list(t["card"])
    nodes = [(v, s) for s in range(T + 1) for v in names]
    out = {}
    for st in itertools.product(*[range(t["card"][v]) for (v, s) in nodes]):
        a = dict(zip(nodes, st))
        val = None
        for (v, s) in nodes:
            if s == 0 or f"trans:{v}" not in tabs:
                pa, rows = tabs[f"init:{v}"]
                pav = [a[(p[0], s)] for p in pa]
            else:
                pa, rows = tabs[f"trans:{v}"]
                pav = [a[(p[0], s - 1 + p[1])] for p in pa]
            col = 0
            for p, x in zip(pa, pav):
                col = col * t["card"][p[0]] + x
            f = rows[a[(v, s)]][col]
            val = f if val is None else val * f
        out[st] = val
    return nodes, out


def run(desc, M):
    from pgmpy.inference import DBNInference
    t = TEMPLATES[desc["template"]]
    tabs = make_cpds(desc, M)
    if desc["mode"] == "structure":
        return run_structure(desc, M, tabs)
    # recorded known findings tied to specific template features (recognised by the feature, see known_findings.txt)
    tkey = None
    if desc["template"] == "xonly":
        tkey = "dbn:known-variable-without-intra-slice-edges"
    elif desc["template"] == "revpar":
        tkey = "dbn:known-initial-state-copy-uses-graph-parent-order"
    elif desc["template"] == "named":
        tkey = "dbn:known-state-names-dropped-by-initial-state-copy"
    try:
        dbn = build_dbn(desc, M, tabs, use_init_state=(desc["fixed_seed"] % 3 != 0) or tkey is not None)
        inf = DBNInference(dbn)
        if tkey is not None:
            ev0 = {tuple(k): s for k, s in desc["ev"]}
            if t.get("state_names"):
                ev0 = {k: f"{k[0].lower()}{s}" for k, s in ev0.items()}
            inf.forward_inference([tuple(x) for x in desc["q"]], ev0 or None)
    except (ValueError, KeyError, IndexError) as e:
        if tkey is None:
            raise
        M.fail("dynamic network with this template feature can be built and queried", f"{type(e).__name__}: {e}", key=tkey)
        return
    q = [tuple(x) for x in desc["q"]]
    ev = {tuple(k): s for k, s in desc["ev"]}
    if t.get("state_names"):
        ev_call = {k: f"{k[0].lower()}{s}" for k, s in ev.items()}
    else:
        ev_call = dict(ev)
    T = max([desc["T"]] + [k[1] for k in ev] + [x[1] for x in q])
    nm_ev = (lambda e: {k: f"{k[0].lower()}{s}" for k, s in e.items()}) if t.get("state_names") else (lambda e: dict(e))
    if desc["mode"] == "sequence":
        inf.forward_inference(q, ev_call or None)  # first question, answer discarded
        ev = {tuple(k): s for k, s in desc["ev2"]}
        res = inf.forward_inference(q, nm_ev(ev))
        desc = dict(desc, mode="forward")
    elif desc["mode"] == "forward":
        res = inf.forward_inference(q, ev_call or None)
    elif desc["mode"] == "backward":
        res = inf.backward_inference(q, ev_call or None)
    else:
        res = inf.query(q, ev_call or None)
    nodes, J = unrolled_joint(desc, tabs, T)
    if desc["mode"] == "forward":
        # filtering semantics: the marginal at time s uses the evidence up to time s only
        pass

    def marg(fixed):
        tot = None
        idx = [(nodes.index(k), s) for k, s in fixed.items()]
        for st, val in J.items():
            if all(st[i] == s for i, s in idx):
                tot = val if tot is None else tot + val
        return tot
    M.check(set(res.keys()) == set(q), "result has exactly the queried (variable, slice) keys", detail=str(list(res.keys())))
    for qv in q:
        if qv not in res:
            continue
        ev_used = ev if desc["mode"] != "forward" else {k: s for k, s in ev.items() if k[1] <= qv[1]}
        pe = marg(dict(ev_used))
        phi = res[qv]
        M.check(list(phi.variables) == [qv], "marginal is over the queried node", detail=str(phi.variables))
        # recorded known finding, recognised structurally: backward (smoothing) pass is wrong for slice-0 variables and for
        # evidence on an interface node in a slice >= 1 (forward inference is unaffected and fully checked)
        known = None
        slices = sorted({x[1] for x in q})
        multi = len([s for s in slices if s >= 1]) >= 2
        if any(s1 >= 1 and s1 < qv[1] for s1 in slices) or (multi and desc["mode"] in ("backward", "query") and qv[1] >= 1):
            # a query at an intermediate slice resets the junction tree that carries the interface message forward
            known = "dbn:known-intermediate-slice-query-corrupts-later-slices"
        elif tkey is not None:
            known = tkey
        elif desc["mode"] in ("backward", "query"):
            iface = {p for p, c in t["inter"]}
            if qv[1] == 0:
                known = "dbn/backward:known-slice0-marginals"
            elif any(k[0] in iface and k[1] >= 1 for k in ev):
                known = "dbn/backward:known-interface-evidence-in-later-slice"
        for s in range(t["card"][qv[0]]):
            got = phi.values[s]
            M.eq(got * pe, marg({**ev_used, qv: s}), f"{desc['mode']}: marginal equals the unrolled network's", key=known,
                 detail=f"{qv} evidence {ev_used}")
    if M.symbolic:
        M.samples.append(f"{desc['template']} {desc['mode']} q={q} ev={ev}: result * P(e) == sum over the {len(nodes)}-node unrolled joint")


def run_structure(desc, M, tabs):
    t = TEMPLATES[desc["template"]]
    tkey = {"xonly": "dbn:known-variable-without-intra-slice-edges", "revpar": "dbn:known-initial-state-copy-uses-graph-parent-order",
            "named": "dbn:known-state-names-dropped-by-initial-state-copy"}.get(desc["template"])
    try:
        return _run_structure(desc, M, tabs, t, tkey)
    except (ValueError, KeyError, IndexError) as e:
        if tkey is None:
            raise
        M.fail("dynamic network with this template feature can be completed and exported", f"{type(e).__name__}: {e}", key=tkey)


def _run_structure(desc, M, tabs, t, tkey):
    dbn = build_dbn(desc, M, tabs, use_init_state=True)
    # initialize_initial_state must have produced slice-1 copies of purely intra CPDs, entry-wise identical by (named) assignment
    for v in t["card"]:
        for sl in (0, 1):
            cpd = dbn.get_cpds((v, sl))
            if not M.check(cpd is not None, "every node of both slices has a CPD after initialize_initial_state", detail=f"{(v, sl)}"):
                continue
            if sl == 0 or f"trans:{v}" not in tabs:
                pa, rows = tabs[f"init:{v}"]
                pa_s = [(p[0], sl) for p in pa]
            else:
                pa, rows = tabs[f"trans:{v}"]
                pa_s = list(pa)
            if not M.check(set(map(tuple, cpd.variables[1:])) == set(pa_s), "copied CPD has the template's parents", detail=f"{(v, sl)}: {cpd.variables}"):
                continue
            phi = cpd.to_factor()
            for st in itertools.product(*[range(t["card"][x[0]]) for x in [(v, sl)] + pa_s]):
                a = dict(zip([(v, sl)] + pa_s, st))
                col = 0
                for p in pa_s:
                    col = col * t["card"][p[0]] + a[p]
                idx = tuple(a[tuple(x)] for x in phi.variables)
                M.eq(phi.values[idx], rows[a[(v, sl)]][col], "initial-state completion copies CPDs without altering them", key=tkey, detail=f"{(v, sl)} {a}")
    for ts in (0, 1):
        bn = dbn.get_constant_bn(t_slice=ts)
        M.check(bn.check_model() is True, "constant two-slice network validates")
        M.check(len(bn.nodes()) == 2 * len(t["card"]), "constant network has both slices", detail=str(bn.nodes()))
        for cpd in bn.get_cpds():
            name = str(cpd.variable)
            v, sl = name[:-1].rstrip("_"), int(name[-1]) - ts
            # get_constant_bn renames (v, s) -> f"{v}_{s+t_slice}"
            v = name.rsplit("_", 1)[0]
            sl = int(name.rsplit("_", 1)[1]) - ts
            if sl == 0 or f"trans:{v}" not in tabs:
                pa, rows = tabs[f"init:{v}"]
                pa_s = [(p[0], sl) for p in pa]
            else:
                pa, rows = tabs[f"trans:{v}"]
                pa_s = list(pa)
            want_scope = {f"{p[0]}_{p[1] + ts}" for p in pa_s}
            if not M.check(set(map(str, cpd.variables[1:])) == want_scope, "constant network keeps the template's parents", detail=f"{name}: {cpd.variables}"):
                continue
            phi = cpd.to_factor()
            order = [(v, sl)] + pa_s
            for st in itertools.product(*[range(t["card"][x[0]]) for x in order]):
                a = dict(zip(order, st))
                col = 0
                for p in pa_s:
                    col = col * t["card"][p[0]] + a[p]
                idx = tuple(a[(str(x).rsplit("_", 1)[0], int(str(x).rsplit("_", 1)[1]) - ts)] for x in phi.variables)
                M.eq(phi.values[idx], rows[a[(v, sl)]][col], "constant two-slice network exposes the template's CPDs unchanged", key=tkey, detail=f"{name} {a}")

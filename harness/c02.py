"""C02 - junction-tree belief propagation is exact and calibrated (DESIGN.md 5/C02)."""
import itertools

import numpy as np

from . import common as C
from .c03 import MNS, build_mn, mn_names

PROPERTY = "C02"
BUDGET = {"quick": 230, "thorough": 1200}
LEVEL = "model_checking"
BOUNDS = {
    "quick": "connected BN / MarkovNetwork / FactorGraph / JunctionTree models <=4 variables, cards<=3; all entries symbolic and >0 on <=3-variable "
             "models, 2 symbolic CPDs (others fixed rationals) on 4-node BNs; calibrate, max_calibrate (<=3 variables, binary), query with "
             "|Q|<=2, |E|<=1 by state name, joint T/F; hash seeds 0,1",
    "thorough": "all-symbolic 4-node BNs where the scenario finishes, |E|<=2, more cardinalities, hash seeds 0-5",
}
ASSUMPTIONS = ["exact real arithmetic", "strictly positive table entries (P(e) > 0 follows)", "connected moral/interaction graph"]

BN_SHAPES = ["pair", "chain3", "fork3", "collider3", "full3", "chain4", "diamond", "collchild", "threepar", "vstruct_chain"]
MN_EXTRA = {
    "msquare": (["A", "B", "C", "D"], [["A", "B"], ["B", "C"], ["C", "D"], ["D", "A"]]),
    "mchain4": (["A", "B", "C", "D"], [["A", "B"], ["C", "B"], ["C", "D"], ["B"]]),
}
JTS = {
    "jt2": (["A", "B", "C"], [("A", "B"), ("B", "C")], [(0, 1)]),
    "jt3": (["A", "B", "C", "D"], [("A", "B"), ("B", "C"), ("B", "D")], [(0, 1), (1, 2)]),
    "jt1": (["A", "B"], [("A", "B")], []),
    # several factors attached to one clique (the second in another variable order); the tree's joint is the product of ALL its factors
    "jt2dup": (["A", "B", "C"], [("A", "B"), ("B", "C")], [(0, 1)], [["B", "A"]]),
    "jt3dup": (["A", "B", "C", "D"], [("A", "B"), ("B", "C"), ("B", "D")], [(0, 1), (1, 2)], [["C", "B"], ["B", "C"]]),
}


def scenarios(tier, seed):
    out = []
    k = 0
    nh = 2 if tier == "quick" else 6

    def queries(nodes, card):
        qs = []
        for q in nodes:
            qs.append(([q], {}))
            for e in nodes:
                if e != q:
                    qs.append(([q], {e: None}))
        for q in itertools.combinations(nodes, 2):
            qs.append((list(q), {}))
            for e in nodes:
                if e not in q:
                    qs.append((list(q)[::-1], {e: None}))
        if tier == "thorough":
            for q in nodes:
                for e in itertools.combinations([x for x in nodes if x != q], 2):
                    qs.append(([q], {e[0]: None, e[1]: None}))
        return qs

    def add(kind, name, nodes, card, extra):
        nonlocal k
        ops = [("calibrate", None, None)]
        if len(nodes) <= 3 and max(card.values()) <= 2:
            ops.append(("max_calibrate", None, None))
        for q, ev in queries(nodes, card):
            ops.append(("query", q, ev))
        for op, q, ev in ops:
            k += 1
            if tier == "quick" and op == "query" and k % 3:
                continue
            ev2 = {e: (k + i) % card[e] for i, e in enumerate(ev or {})}
            d = dict(family=f"bp/{kind}/{op}", kind=kind, model=name, nodes=nodes, card=card, op=op, q=q, ev=ev2, joint=(k % 2 == 0),
                     states=C.STATE_STYLES[k % len(C.STATE_STYLES)], hashseed=k % nh, budget_s=50, amplify=(kind != "bn"), **extra)
            if kind == "bn":
                d["names"] = list(C.NAME_STYLES)[(k // 2) % 4] if k % 3 == 0 else "str"
                if len(nodes) == 4 and tier == "quick":
                    d["fixed_cpds"] = [nodes[(k + 1) % 4], nodes[(k + 2) % 4]]
                    d["fixed_seed"] = k
                if op == "query" and k % 4 == 0:
                    cand = [x for x in nodes if x not in q and x not in ev2]
                    if cand:
                        d["virt"] = cand[k % len(cand)]
                        d["family"] = "bp/bn/query_virtual"
            out.append(d)
    for sname in BN_SHAPES:
        nodes, parents = C.SHAPES[sname]
        for card in C.card_options(nodes, tier)[: (2 if tier == "quick" else 4)]:
            if min(card.values()) < 1:
                continue
            add("bn", sname, nodes, card, dict(parents=parents))
    for mname, (nodes, scopes) in {**MNS, **MN_EXTRA}.items():
        for card in C.card_options(nodes, tier)[:2]:
            if len(nodes) == 4 and max(card.values()) > 2 and tier == "quick":
                continue
            add("mn", mname, nodes, card, dict(scopes=scopes))
            if mname != "mdup":  # a FactorGraph cannot hold two equal factors at all (C14 known finding): nothing for belief propagation to run on
                add("fg", mname, nodes, card, dict(scopes=scopes))
    # operation sequences on ONE engine object (stale calibration state must not leak into later answers)
    SEQS = [["max_calibrate", "query"], ["calibrate", "query"], ["max_calibrate", "map_query"], ["query", "max_calibrate", "query"],
            ["calibrate", "max_calibrate", "query"], ["map_query", "query"]]
    for sname in ["chain3", "collider3", "fork3", "chain4"]:
        nodes, parents = C.SHAPES[sname]
        card = {v: 2 for v in nodes}
        for si, seq in enumerate(SEQS):
            for q in nodes[:2] + nodes[-1:]:
                k += 1
                d = dict(family=f"bp/bn/seq", kind="bn", model=sname, nodes=nodes, card=card, op="seq", seq=seq, q=[q], ev={}, joint=True,
                         states=C.STATE_STYLES[k % len(C.STATE_STYLES)], hashseed=k % nh, budget_s=50, parents=parents, names="str")
                if len(nodes) == 4:
                    d["fixed_cpds"] = [nodes[(k + 1) % 4], nodes[(k + 2) % 4]]
                    d["fixed_seed"] = k
                out.append(d)
    for mname in ["mchain3", "mchain4"]:
        nodes, scopes = {**MNS, **MN_EXTRA}[mname]
        card = {v: 2 for v in nodes}
        for seq in SEQS[:4]:
            for q in nodes[:1] + nodes[-1:]:
                k += 1
                out.append(dict(family=f"bp/mn/seq", kind="mn", model=mname, nodes=nodes, card=card, op="seq", seq=seq, q=[q], ev={}, joint=True,
                                states=C.STATE_STYLES[k % len(C.STATE_STYLES)], hashseed=k % nh, budget_s=50, scopes=scopes, amplify=True))
    # a chordless 5-cycle: the junction tree depends on triangulation fill-ins (two symbolic factors, the rest fixed rationals)
    cyc_nodes = ["A", "B", "C", "D", "E"]
    cyc_scopes = [["A", "B"], ["B", "C"], ["C", "D"], ["D", "E"], ["E", "A"]]
    for ci, ccard in enumerate([dict(A=2, B=2, C=2, D=2, E=2), dict(A=3, B=2, C=3, D=2, E=2), dict(A=5, B=4, C=3, D=2, E=3)]):
        for symf in ([0, 2], [1, 4], [3, 0]) if ci < 2 else ([2], [3]):
            fixed = [i for i in range(5) if i not in symf]
            for op, q, ev in [("calibrate", None, {}), ("query", ["A"], {"C": 1}), ("query", ["D", "B"], {}), ("query", ["E"], {"B": 0}),
                              ("query", ["C"], {"A": 1}), ("query", ["B"], {"D": 1}), ("query", ["A"], {"E": 1, "C": 0})]:
                k += 1
                if tier == "quick" and ci >= 1 and op == "calibrate":
                    continue
                out.append(dict(family=f"bp/mn5/{op}", kind="mn", model="mcycle5", nodes=cyc_nodes, card=ccard, op=op, q=q, ev=ev, joint=True,
                                states=C.STATE_STYLES[k % len(C.STATE_STYLES)], hashseed=k % nh, budget_s=50, amplify=False, scopes=cyc_scopes,
                                fixed_factors=fixed, fixed_seed=k))
    # 4-cycle with a tail: the default triangulation produces cliques holding variables none of their assigned factors mentions
    t_nodes = ["A", "B", "C", "D", "E", "F"]
    t_scopes = [["A", "B"], ["B", "C"], ["C", "D"], ["D", "A"], ["D", "E"], ["E", "F"]]
    t_card = dict(A=2, B=2, C=2, D=2, E=2, F=2)
    for st in ["str", "permint", "permrange", "tuple"]:
        for hs in range(nh):
            for q, ev in [(["A"], {"F": 1}), (["F"], {"A": 1}), (["B"], {"E": 0, "C": 1}), (["E"], {"B": 1})]:
                k += 1
                if tier == "quick" and (k + seed) % 2:
                    continue
                out.append(dict(family="bp/mn6/query", kind="mn", model="mcycle4tail", nodes=t_nodes, card=t_card, op="query", q=q, ev=ev, joint=True,
                                states=st, hashseed=hs, budget_s=50, amplify=False, scopes=t_scopes, fixed_factors=[0, 1, 2, 3, 4], fixed_seed=k))
    for jname, spec in JTS.items():
        nodes, cliques, edges = spec[:3]
        extra = spec[3] if len(spec) > 3 else []
        for card in C.card_options(nodes, tier)[:2]:
            add("jt", jname, nodes, card, dict(scopes=[list(c) for c in cliques] + extra, cliques=[list(c) for c in cliques], jt_edges=edges))
    return out


def build_model(desc, M):
    """returns (model, nm, u) where u(assignment over all nodes) is the unnormalised joint (oracle)"""
    from pgmpy.models import FactorGraph, JunctionTree
    kind = desc["kind"]
    if kind == "bn":
        virt = desc.get("virt")
        M.declare(C.sym_names(desc) + ([f"lam{i}" for i in range(desc["card"][virt])] if virt else []))
        tabs = C.make_tables(desc, M, positive=True)
        model, nm = C.build_bn(desc, M, tabs)
        if virt:
            from fractions import Fraction
            lam = [M.sym(f"lam{i}", lo=Fraction(1, 10), hi=1) for i in range(desc["card"][virt])]
            M._lam = lam
            return model, nm, (lambda a: C.joint_entry(desc, tabs, a) * lam[a[virt]])
        return model, nm, (lambda a: C.joint_entry(desc, tabs, a))
    M.declare(mn_names(desc))
    mn, val, _ = build_mn(desc, M, positive=True)
    nm = {v: v for v in desc["nodes"]}
    if kind == "mn":
        return mn, nm, val
    if kind == "fg":
        fg = FactorGraph()
        fg.add_nodes_from(desc["nodes"])
        for f in mn.get_factors():
            fg.add_node(f)
            for v in f.variables:
                fg.add_edge(v, f)
        fg.add_factors(*mn.get_factors())
        return fg, nm, val
    if kind == "jt":
        jt = JunctionTree()
        cl = [tuple(s) for s in desc.get("cliques", desc["scopes"])]
        for c in cl:
            jt.add_node(c)
        for i, j in desc["jt_edges"]:
            jt.add_edge(cl[i], cl[j])
        jt.add_factors(*mn.get_factors())
        return jt, nm, val
    raise ValueError(kind)


def marg(desc, u, fixed):
    rest = [v for v in desc["nodes"] if v not in fixed]
    t = None
    for b in C.assignments(desc, rest):
        x = u({**b, **fixed})
        t = x if t is None else t + x
    return t


def omax(M, vals):
    best = vals[0]
    for v in vals[1:]:
        if v > best:
            best = v
    return best


def maxmarg(desc, M, u, fixed):
    rest = [v for v in desc["nodes"] if v not in fixed]
    return omax(M, [u({**b, **fixed}) for b in C.assignments(desc, rest)])


def read(desc, nm, phi, a):
    inv = {nm[v]: v for v in desc["nodes"]}
    idx = tuple(phi.name_to_no[x][C.sname(desc, inv[x], a[inv[x]])] for x in phi.variables)
    return phi.values[idx] if isinstance(phi.values, np.ndarray) else phi.values


def check_prop(desc, M, nm, phi, scope, fn, tag):
    """phi over `scope` proportional to fn(assignment)"""
    inv = {nm[v]: v for v in desc["nodes"]}
    if not M.check(set(phi.variables) == {nm[v] for v in scope}, f"{tag}: scope", detail=f"{phi.variables} vs {scope}"):
        return
    asg = list(C.assignments(desc, scope))
    a0 = asg[0]
    b0, m0 = read(desc, nm, phi, a0), fn(a0)
    for a in asg[1:]:
        M.eq(read(desc, nm, phi, a) * m0, b0 * fn(a), f"{tag}: proportional to the joint marginal")
    M.lt(M.const(0), b0, f"{tag}: positive") if True else None


def run(desc, M):
    from pgmpy.inference import BeliefPropagation
    model, nm, u = build_model(desc, M)
    inv = {nm[v]: v for v in desc["nodes"]}
    bp = BeliefPropagation(model)
    op = desc["op"]
    nodes_before = sorted(repr(x) for x in model.nodes())
    if op == "seq":
        qv = desc["q"][0]
        p1 = marg(desc, u, {})
        for step in desc["seq"]:
            if step in ("calibrate", "max_calibrate"):
                getattr(bp, step)()
            elif step == "query":
                r = bp.query([nm[qv]], show_progress=False)
                for a in C.assignments(desc, [qv]):
                    M.eq(read(desc, nm, r, a) * p1, marg(desc, u, a), f"query after {desc['seq']} equals the marginal of the joint")
            elif step == "map_query":
                r = bp.map_query([nm[qv]], show_progress=False)
                names_v = C.expected_state_names(desc, qv)
                if M.check(r.get(nm[qv]) in names_v, "map_query value is a state name", detail=str(r)):
                    star = names_v.index(r[nm[qv]])
                    for a in C.assignments(desc, [qv]):
                        M.le(marg(desc, u, a), marg(desc, u, {qv: star}), f"map_query after {desc['seq']} maximises the marginal")
        return
    if op in ("calibrate", "max_calibrate"):
        getattr(bp, op)()
        cb, sb = bp.get_clique_beliefs(), bp.get_sepset_beliefs()
        jt = bp.junction_tree
        M.check(set(cb.keys()) == set(jt.nodes()), "a belief for every clique")
        M.check(set(sb.keys()) == {frozenset(e) for e in jt.edges()}, "a belief for every sepset")
        mfun = (lambda fx: marg(desc, u, fx)) if op == "calibrate" else (lambda fx: maxmarg(desc, M, u, fx))
        for clique, beta in cb.items():
            scope = [inv[x] for x in clique]
            check_prop(desc, M, nm, beta, scope, mfun, f"{op}: clique belief")
        for key, mu in sb.items():
            c1, c2 = tuple(key)
            scope = [inv[x] for x in set(c1) & set(c2)]
            check_prop(desc, M, nm, mu, scope, mfun, f"{op}: sepset belief")
            # adjacent cliques agree on the sepset
            elim = "marginalize" if op == "calibrate" else "maximize"
            m1 = getattr(cb[c1], elim)(list(set(c1) - set(c2)), inplace=False)
            m2 = getattr(cb[c2], elim)(list(set(c2) - set(c1)), inplace=False)
            for a in C.assignments(desc, scope):
                M.eq(read(desc, nm, m1, a), read(desc, nm, m2, a), f"{op}: adjacent cliques agree on sepset")
                M.eq(read(desc, nm, m1, a), read(desc, nm, mu, a), f"{op}: sepset belief equals clique marginal")
        if M.symbolic:
            M.samples.append(f"{op}: cliques {list(cb.keys())}")
    else:
        evidence = {nm[e]: C.sname(desc, e, s) for e, s in desc["ev"].items()} or None
        qvars = [nm[v] for v in desc["q"]]
        kw = {}
        virt = desc.get("virt")
        if virt:
            from pgmpy.factors.discrete import TabularCPD
            sn = C.state_names(desc.get("states", "default"), virt, desc["card"][virt])
            kw["virtual_evidence"] = [TabularCPD(nm[virt], desc["card"][virt], [[M.impl(x)] for x in M._lam],
                                                 **({"state_names": {nm[virt]: sn}} if sn else {}))]
        res = bp.query(qvars, evidence=evidence, joint=desc["joint"], show_progress=False, **kw)
        pe = marg(desc, u, dict(desc["ev"]))
        M.mark_pos(pe) if M.symbolic else None

        def chk(phi, qs, tag):
            if not M.check(set(phi.variables) == {nm[v] for v in qs}, f"{tag}: scope", detail=str(phi.variables)):
                return
            for v in qs:
                M.check(list(phi.state_names[nm[v]]) == C.expected_state_names(desc, v), f"{tag}: state names", detail=str(phi.state_names))
            for a in C.assignments(desc, qs):
                M.eq(read(desc, nm, phi, a) * pe, marg(desc, u, {**a, **desc["ev"]}), f"{tag}: equals conditional of the joint")
        if desc["joint"]:
            chk(res, desc["q"], "query")
        else:
            M.check(set(res.keys()) == set(qvars), "query(joint=False): keys", detail=str(list(res.keys())))
            for v in desc["q"]:
                if nm[v] in res:
                    chk(res[nm[v]], [v], "query(joint=False)")
        M.check(sorted(repr(x) for x in bp.model.nodes()) == nodes_before or desc["kind"] == "fg" or bool(virt), "engine's model restored after the query")
        if virt:
            lam_, u_ = M._lam, u
            u = lambda a: u_(a) / lam_[a[virt]]  # noqa: the next query carries no soft evidence
        # a second, different query on the same engine still works (engine state restored)
        other = [v for v in desc["nodes"] if v not in desc["q"]][:1] or desc["q"][:1]
        res2 = bp.query([nm[other[0]]], show_progress=False)
        p1 = marg(desc, u, {})
        for a in C.assignments(desc, other):
            M.eq(read(desc, nm, res2, a) * p1, marg(desc, u, a), "second query on the same engine")

"""C07 - samplers draw from the distribution they claim (DESIGN.md 5/C07; partial)."""
import itertools
import math
from fractions import Fraction

import numpy as np

from symx import core, stubs
from . import common as C
from .c03 import MNS, build_mn, mn_names

PROPERTY = "C07"
LEVEL = "model_checking"
BOUNDS = {
    "quick": "(a) Gibbs transition kernels from Bayesian and Markov networks <=3 variables, all entries symbolic >0; (b) forward / rejection / likelihood-"
             "weighted sampling with a SYMBOLIC random generator: concrete rational CPDs (zeros included) on <=4-node networks, numpy's choice replaced by "
             "inverse-CDF over fresh symbolic uniforms, sample size 1 (law, exhaustive over paths) and 2 (row count/labels), rejection restricted to "
             "samples accepted in the first round (deeper rounds cut and counted); latent columns, partial samples",
    "thorough": "more networks, size 2 law",
}
ASSUMPTIONS = ["numpy.random.choice(p=w) is modelled as inverse-CDF sampling of one uniform per draw (numpy's documented algorithm)",
               "large-sample convergence, HMC/NUTS, simulate() missingness are outside; seed reproducibility is checked concretely only",
               "law violations are replayed statistically on the real generator (20000 samples, 5 sigma)"]

NETS = {
    "coll": dict(nodes=["A", "B", "C"], parents={"A": [], "B": [], "C": ["A", "B"]}, card=dict(A=2, B=2, C=3),
                 tabs={"A": [["1/4"], ["3/4"]], "B": [["1/2"], ["1/2"]], "C": [["1/2", "1/4", "0", "1"], ["1/2", "1/4", "1/2", "0"], ["0", "1/2", "1/2", "0"]]}),
    "chain": dict(nodes=["A", "B", "C"], parents={"A": [], "B": ["A"], "C": ["B"]}, card=dict(A=2, B=3, C=2),
                  tabs={"A": [["1/3"], ["2/3"]], "B": [["1/2", "0"], ["1/2", "1/4"], ["0", "3/4"]], "C": [["1", "1/5", "1/2"], ["0", "4/5", "1/2"]]}),
    "fork4": dict(nodes=["A", "B", "C", "D"], parents={"A": [], "B": ["A"], "C": ["A"], "D": ["C", "B"]}, card=dict(A=2, B=2, C=2, D=2),
                  tabs={"A": [["1/2"], ["1/2"]], "B": [["1/4", "1"], ["3/4", "0"]], "C": [["1/3", "2/3"], ["2/3", "1/3"]],
                        "D": [["1/2", "1/8", "1", "1/4"], ["1/2", "7/8", "0", "3/4"]]}),
}


class _RandomProxy:
    def __init__(self, M, log):
        self.M, self.log = M, log

    def __getattr__(self, k):
        return getattr(np.random, k)

    def seed(self, *a, **k):
        return None

    def choice(self, a, size=None, p=None, replace=True):
        stubs._hit("np.random.choice -> inverse CDF over symbolic uniforms")
        a = np.asarray(a)
        k = int(size) if size is not None else 1
        cdf = []
        acc = Fraction(0)
        ws = [Fraction(float(w)).limit_denominator(10 ** 9) for w in p]
        for w in ws:
            acc += w
            cdf.append(acc)
        out = []
        for _ in range(k):
            if len(self.log) >= 14:
                raise core.PathLimit("draw bound")
            u = self.M.fresh(lo=0, hi=1, hi_strict=True)
            lo = Fraction(0)
            pick = None
            for i, c in enumerate(cdf):
                if i == len(cdf) - 1 or bool(u < core.lift(c)):
                    pick = i
                    self.log.append((lo, c if i < len(cdf) - 1 else Fraction(1)))
                    break
                lo = c
            out.append(a[pick])
        return np.array(out) if size is not None else out[0]


class _NPR:
    def __init__(self, M, log):
        self.random = _RandomProxy(M, log)

    def __getattr__(self, k):
        return getattr(np, k)


def scenarios(tier, seed):
    out = []
    k = 0
    for sname in ["pair", "chain3", "collider3", "fork3"]:
        nodes, parents = C.SHAPES[sname]
        for card in C.card_options(nodes, tier)[:2]:
            card = {v: max(2, c) for v, c in card.items()}
            for style in C.STATE_STYLES:
                k += 1
                out.append(dict(family="gibbs/bn", mode="gibbs", kind="bn", nodes=nodes, parents=parents, card=card, states=style, names="str", hashseed=k % 2))
    # (msingle*: several variables whose ONLY factor is one shared factor; every Markov network is also sampled by a second sampler built from
    # the same model object - building a sampler must not change the model)
    mns = {**{m_: MNS[m_] for m_ in ["mchain3", "mtri", "mpair_unary"]}, "msingle2": (["A", "B"], [["A", "B"]]), "msingle3": (["A", "B", "C"], [["B", "A", "C"]])}
    for mname in mns:
        nodes, scopes = mns[mname]
        for card in C.card_options(nodes, tier)[:2]:
            card = {v: max(2, c) for v, c in card.items()}
            k += 1
            out.append(dict(family="gibbs/mn", mode="gibbs", kind="mn", nodes=nodes, scopes=scopes, card=card, states=C.STATE_STYLES[k % len(C.STATE_STYLES)], hashseed=k % 2))
    for net in NETS:
        nodes = NETS[net]["nodes"]
        for style in ["default", "str", "permint", "permrange"]:
            out.append(dict(family="forward", mode="sample", sampler="forward", net=net, size=1, states=style, hashseed=0, budget_s=80, max_paths=400))
            if style == "permrange":
                continue
            out.append(dict(family="forward", mode="sample", sampler="forward", net=net, size=2, states=style, hashseed=1, budget_s=80, max_paths=1500))
            out.append(dict(family="forward", mode="sample", sampler="forward", net=net, size=1, states=style, latents=[nodes[0]], include_latents=False, hashseed=0))
            out.append(dict(family="forward", mode="sample", sampler="forward", net=net, size=1, states=style, latents=[nodes[0]], include_latents=True, hashseed=1))
            out.append(dict(family="forward", mode="sample", sampler="forward", net=net, size=1, states=style, partial=nodes[0], hashseed=0))
            out.append(dict(family="forward", mode="sample", sampler="forward", net=net, size=2, states=style, partial=nodes[1], partial_index=[5, 0], hashseed=1,
                            budget_s=80, max_paths=1500))
            # evidence on a whole family (a node and ALL of its >=2 parents, parent states not a palindrome): the weight is a single table entry whose
            # column index depends on the parent order
            full_family = {"coll": [[("A", 1), ("B", 0), ("C", 1)]], "fork4": [[("C", 1), ("B", 0), ("D", 0)], [("B", 1), ("C", 0), ("D", 1), ("A", 0)]]}.get(net, [])
            for ev in [[(nodes[-1], 0)], [(nodes[0], 1)], [(nodes[1], 0), (nodes[-1], 1)]] + full_family:
                out.append(dict(family="lw", mode="sample", sampler="lw", net=net, size=1, states=style, ev=[list(e) for e in ev], hashseed=0, budget_s=80, max_paths=400))
                out.append(dict(family="rejection", mode="sample", sampler="rejection", net=net, size=1, states=style, ev=[list(e) for e in ev], hashseed=1,
                                budget_s=80, max_paths=400))
    for i in range(3):
        out.append(dict(family="seed-repro", mode="seedrepro", variant=i, hashseed=i % 2, concrete_only=True))
    return out


def run(desc, M):
    return {"gibbs": run_gibbs, "sample": run_sample, "seedrepro": run_seed}[desc["mode"]](desc, M)


def run_gibbs(desc, M):
    from pgmpy.sampling import GibbsSampling
    nodes, card = desc["nodes"], desc["card"]
    style = desc["states"]
    if desc["kind"] == "bn":
        M.declare(C.sym_names(desc))
        tabs = C.make_tables(desc, M, positive=True)
        d2 = dict(desc)
        if style == "permrange":
            d2["states"] = "default"
        model, nm = C.build_bn(d2, M, tabs)
        if style == "permrange":
            # state names that are a permutation of 0..k-1 (an index-looking label that is not the index)
            from pgmpy.factors.discrete import TabularCPD
            from pgmpy.models import BayesianNetwork
            model = BayesianNetwork()
            model.add_nodes_from(nodes)
            model.add_edges_from([(p, v) for v in nodes for p in desc["parents"][v]])
            pn = {v: [(i + 1) % card[v] for i in range(card[v])] for v in nodes}
            for v in nodes:
                pa = desc["parents"][v]
                model.add_cpds(TabularCPD(v, card[v], M.impl_table(tabs[v]), evidence=pa or None, evidence_card=[card[p] for p in pa] or None,
                                          state_names={x: pn[x] for x in [v] + pa}))
        u = lambda a: C.joint_entry(desc, tabs, a)  # noqa
    else:
        M.declare(mn_names(desc))
        model, u, _ = build_mn(desc, M, positive=True)
    g = GibbsSampling(model)
    if desc["kind"] == "mn":
        g = GibbsSampling(model)   # the second sampler built from the same model
    variables = [str(v) for v in g.variables]
    M.check(set(variables) == set(nodes), "Gibbs sampler covers the model's variables")
    for var in nodes:
        others = [v for v in variables if v != var]
        kern = g.transition_models[var]
        for tup in itertools.product(*[range(card[v]) for v in others]):
            a = dict(zip(others, tup))
            if not M.check(tup in kern, "kernel defined for every configuration of the other variables", detail=f"{var} {tup}"):
                continue
            tot = None
            for s in range(card[var]):
                x = u({**a, var: s})
                tot = x if tot is None else tot + x
            for s in range(card[var]):
                M.eq(kern[tup][s] * tot, u({**a, var: s}), "Gibbs kernel equals the variable's full conditional", detail=f"{var}={s} | {a} ({style})")
    if M.symbolic:
        M.samples.append(f"gibbs {desc['kind']} {nodes} {style}: kernel[var][others][s] * sum_s' joint == joint")


def net_model(desc):
    from pgmpy.factors.discrete import TabularCPD
    from pgmpy.models import BayesianNetwork
    net = NETS[desc["net"]]
    nodes, parents, card = net["nodes"], net["parents"], net["card"]
    style = desc["states"]
    model = BayesianNetwork()
    model.add_nodes_from(nodes)
    model.add_edges_from([(p, v) for v in nodes for p in parents[v]])
    d = dict(nodes=nodes, parents=parents, card=card, states=style)
    for v in nodes:
        pa = parents[v]
        sn = {x: C.state_names(style, x, card[x]) for x in [v] + pa} if style != "default" else None
        model.add_cpds(TabularCPD(v, card[v], [[float(Fraction(x)) for x in r] for r in net["tabs"][v]], evidence=pa or None,
                                  evidence_card=[card[p] for p in pa] or None, **({"state_names": sn} if sn else {})))
    model.latents = set(desc.get("latents", []))
    tabs = {v: [[Fraction(x) for x in r] for r in net["tabs"][v]] for v in nodes}
    return model, d, tabs


def run_sample(desc, M):
    import pandas as pd
    from pgmpy.factors.discrete import State
    from pgmpy.sampling import BayesianModelSampling
    model, d, tabs = net_model(desc)
    nodes, card = d["nodes"], d["card"]
    size = desc["size"]
    ev = [(v, s) for v, s in desc.get("ev", [])]
    evd = dict(ev)
    jt = C.joint_table(d, tabs)
    pe = C.marginal(d, jt, evd) if ev else Fraction(1)
    if pe == 0:
        return
    sampler = desc["sampler"]
    partial = None
    if desc.get("partial"):
        pv = desc["partial"]
        # BayesianModelSampling takes partial samples as state numbers; rows are matched by POSITION whatever the frame's index is
        pvals = [(card[pv] - 1 - r) % card[pv] for r in range(size)]
        partial = pd.DataFrame({pv: pvals}, index=desc.get("partial_index", list(range(size))))
    if not hasattr(M, "agg"):
        M.agg = {}
        M.cut_mass = Fraction(0)
    if M.symbolic:
        M.declare([], extra=16)
        log = []
        # the CPDs are concrete here: run pgmpy on its default float64 backend, only the random generator is symbolic
        stubs.uninstall()
        proxy = _NPR(M, log)
        stubs.patch_attr("pgmpy.utils.mathext", "np", proxy)
        stubs.patch_attr("pgmpy.sampling.Sampling", "np", proxy)
        model, d, tabs = net_model(desc)
        eng = BayesianModelSampling(model)
        evs = [State(v, C.sname(d, v, s)) for v, s in ev]
        try:
            if sampler == "forward":
                df = eng.forward_sample(size=size, include_latents=desc.get("include_latents", False), show_progress=False, partial_samples=partial, n_jobs=1)
            elif sampler == "lw":
                df = eng.likelihood_weighted_sample(evidence=evs, size=size, include_latents=desc.get("include_latents", False), show_progress=False)
            else:
                df = eng.rejection_sample(evidence=evs, size=size, include_latents=desc.get("include_latents", False), show_progress=False)
        except core.PathLimit:
            vol = Fraction(1)
            for lo, hi in log[: len(nodes) * size]:
                vol *= hi - lo
            M.cut_mass += vol
            raise
        vol = Fraction(1)
        for lo, hi in log:
            vol *= hi - lo
        M.check(len(df) == size, "exactly the requested number of rows", detail=str(len(df)))
        lat = set(desc.get("latents", []))
        cols = [c for c in df.columns if c != "_weight"]
        if desc.get("include_latents", False) or not lat:
            M.check(set(cols) == set(nodes), "all model columns present", detail=str(cols))
        else:
            M.check(set(cols) == set(nodes) - lat, "latent columns appear only when requested", detail=str(cols))
        rows = []
        for r in range(len(df)):
            a = {}
            for v in cols:
                val = df.iloc[r][v]
                names_v = C.expected_state_names(d, v)
                ok = M.check(any(val == n_ for n_ in names_v), "every sampled value is a declared state name of its column", detail=f"{v}: {val!r}")
                if ok:
                    a[v] = [i for i, n_ in enumerate(names_v) if val == n_][0]
            rows.append(a)
            if len(a) == len(nodes):
                if sampler == "lw":
                    # a likelihood-weighted sample may contradict the evidence only with weight zero
                    M.check(jt[tuple(a[v] for v in nodes)] > 0 or float(df.iloc[r]["_weight"]) == 0.0, "zero-probability assignments carry weight zero", detail=str(a))
                elif partial is None:  # values forced through partial_samples may have probability zero
                    M.check(jt[tuple(a[v] for v in nodes)] > 0, "zero-probability assignments never occur", detail=str(a))
            for v, s in ev:
                if v in a:
                    M.check(a[v] == s, "evidence columns are fixed to the evidence", detail=f"{v}: {a[v]} vs {s}")
            if partial is not None and desc["partial"] in a:
                M.check(a[desc["partial"]] == pvals[r], "partial samples are respected row by row (by position)", detail=f"row {r}: {a[desc['partial']]} vs {pvals[r]}")
            if sampler == "lw" and len(a) == len(nodes):
                w = Fraction(1)
                for v, s in ev:
                    w *= tabs[v][s][C.col_index(d, v, a)]
                M.check(abs(float(df.iloc[r]["_weight"]) - float(w)) < 1e-9, "likelihood weight = product of P(evidence variable | sampled parents)",
                        detail=f"{df.iloc[r]['_weight']} vs {w}")
        if size == 1 and len(rows[0]) == len(nodes) and partial is None:
            key = tuple(rows[0][v] for v in nodes)
            M.agg[key] = M.agg.get(key, Fraction(0)) + vol
        if M.symbolic:
            M.samples.append(f"{sampler} {desc['net']} -> {rows} on a box of volume {vol}")
    else:
        # concrete twin / replay: statistical check of the law on the real generator
        eng = BayesianModelSampling(model)
        evs = [State(v, C.sname(d, v, s)) for v, s in ev]
        if partial is not None:
            # partial samples: the supplied column must come back row by row (by position), whatever the frame's index
            big = 6
            pv = desc["partial"]
            pvals_big = [(card[pv] - 1 - r) % card[pv] for r in range(big)]
            idx_big = list(range(big))[::-1] if desc.get("partial_index") else list(range(big))
            if desc.get("partial_index"):
                idx_big = [i * 3 + 1 for i in idx_big]
            pframe = pd.DataFrame({pv: pvals_big}, index=idx_big)
            df = eng.forward_sample(size=big, include_latents=True, show_progress=False, seed=11, partial_samples=pframe, n_jobs=1)
            M.check(len(df) == big, "exactly the requested number of rows", detail=str(len(df)))
            names_v = C.expected_state_names(d, pv)
            got = list(df[pv])
            M.check(all(any(g == n_ for n_ in names_v) for g in got) and [names_v.index(g) if g in names_v else None for g in got] == pvals_big,
                    "partial samples are respected row by row (by position)", detail=f"{got} vs {[names_v[i] for i in pvals_big]}")
            return
        n = 20000
        if sampler == "forward":
            df = eng.forward_sample(size=n, include_latents=True, show_progress=False, seed=11, partial_samples=None, n_jobs=1)
            wts = np.ones(n)
        elif sampler == "lw":
            df = eng.likelihood_weighted_sample(evidence=evs, size=n, include_latents=True, show_progress=False, seed=11)
            wts = df["_weight"].values
        else:
            df = eng.rejection_sample(evidence=evs, size=n, include_latents=True, show_progress=False, seed=11)
            wts = np.ones(len(df))
        M.check(len(df) == n, "exactly the requested number of rows", detail=str(len(df)))
        idx = {v: {n_: i for i, n_ in enumerate(C.expected_state_names(d, v))} for v in nodes}
        codes = np.stack([df[v].map(idx[v]).values for v in nodes], axis=1)
        M.check(not np.isnan(codes.astype(float)).any(), "every sampled value is a declared state name of its column")
        tot = float(wts.sum())
        for st, p in jt.items():
            if any(st[nodes.index(v)] != s for v, s in ev):
                continue
            want = float(p / pe)
            mask = np.all(codes == np.array(st), axis=1)
            got = float(wts[mask].sum()) / tot
            sigma = math.sqrt(max(want * (1 - want), 1e-6) / n) * (3 if sampler == "lw" else 1)
            M.check(abs(got - want) <= 5 * sigma + 0.004, f"{sampler} samples follow the {'posterior' if ev else 'joint'} distribution (statistical replay)",
                    detail=f"{st}: empirical {got:.4f} vs {want:.4f}")
            if want == 0:
                M.check(got == 0, "zero-probability assignments never occur", detail=str(st))


def finalize(desc, M):
    """after all paths: the exact volume of the union of boxes yielding assignment x equals P(x) (forward) / P(x, e) (first-round rejection)
    / the proposal distribution (likelihood weighting)"""
    if desc["mode"] != "sample" or desc["size"] != 1 or desc.get("partial") or not hasattr(M, "agg"):
        return
    if desc.get("latents") and not desc.get("include_latents", False):
        return
    model, d, tabs = net_model(desc)
    nodes = d["nodes"]
    jt = C.joint_table(d, tabs)
    ev = dict((v, s) for v, s in desc.get("ev", []))
    sampler = desc["sampler"]
    for st, p in jt.items():
        a = dict(zip(nodes, st))
        if sampler == "forward":
            want = p
        elif sampler == "rejection":
            want = p if all(a[v] == s for v, s in ev.items()) else Fraction(0)
        else:
            if any(a[v] != s for v, s in ev.items()):
                want = Fraction(0)
            else:  # proposal: product of the non-evidence CPDs
                want = Fraction(1)
                for v in nodes:
                    if v not in ev:
                        want *= tabs[v][a[v]][C.col_index(d, v, a)]
        got = M.agg.get(st, Fraction(0))
        if sampler == "rejection":
            # later rounds are cut: only a lower bound from the first round is exact
            M.check(got >= want or got + M.cut_mass >= want, "rejection sampling: accepted first-round mass of x equals P(x, e)", detail=f"{st}: {got} vs {want}")
            M.check(got <= want + M.cut_mass, "rejection sampling: no mass on assignments beyond P(x, e) (+cut mass)", detail=f"{st}: {got} vs {want}")
        else:
            M.check(got == want, f"{sampler}: exact volume of the uniform boxes yielding x equals its probability", detail=f"{st}: {got} vs {want}")


def run_seed(desc, M):
    from pgmpy.sampling import BayesianModelSampling, GibbsSampling
    M.declare([])
    model, d, tabs = net_model(dict(net=list(NETS)[desc["variant"]], states="str"))
    from pgmpy.factors.discrete import State
    nodes = d["nodes"]
    evs = [State(nodes[0], C.sname(d, nodes[0], 1))]
    for seed in (42, 0, 7):
        s1 = BayesianModelSampling(model).forward_sample(size=50, seed=seed, show_progress=False)
        s2 = BayesianModelSampling(model).forward_sample(size=50, seed=seed, show_progress=False)
        M.check(s1.equals(s2), "a fixed seed reproduces the same forward samples", detail=f"seed {seed}")
        r1 = BayesianModelSampling(model).rejection_sample(evs, size=40, seed=seed, show_progress=False)
        r2 = BayesianModelSampling(model).rejection_sample(evs, size=40, seed=seed, show_progress=False)
        M.check(r1.equals(r2), "a fixed seed reproduces the same rejection samples", detail=f"seed {seed}")
        l1 = BayesianModelSampling(model).likelihood_weighted_sample(evs, size=40, seed=seed, show_progress=False)
        l2 = BayesianModelSampling(model).likelihood_weighted_sample(evs, size=40, seed=seed, show_progress=False)
        M.check(l1.equals(l2), "a fixed seed reproduces the same likelihood-weighted samples", detail=f"seed {seed}")
        g1 = GibbsSampling(model).sample(size=20, seed=seed)
        g2 = GibbsSampling(model).sample(size=20, seed=seed)
        M.check(g1.equals(g2), "a fixed seed reproduces the same Gibbs samples", detail=f"seed {seed}")
        m1_ = model.simulate(n_samples=30, seed=seed, show_progress=False)
        m2_ = model.simulate(n_samples=30, seed=seed, show_progress=False)
        M.check(m1_.equals(m2_), "a fixed seed reproduces the same simulate() output", detail=f"seed {seed}")
        e1 = model.simulate(n_samples=30, evidence={nodes[0]: C.sname(d, nodes[0], 1)}, seed=seed, show_progress=False)
        e2 = model.simulate(n_samples=30, evidence={nodes[0]: C.sname(d, nodes[0], 1)}, seed=seed, show_progress=False)
        M.check(e1.equals(e2), "a fixed seed reproduces the same simulate(evidence) output", detail=f"seed {seed}")
    # Gibbs sampling with a latent variable: latent columns only when requested
    model.latents = {nodes[0]}
    gl = GibbsSampling(model)
    out1 = gl.sample(size=5, seed=1)
    out2 = gl.sample(size=5, seed=1, include_latents=True)
    M.check(nodes[0] not in out1.columns and nodes[0] in out2.columns, "Gibbs samples contain latent columns only when requested", detail=f"{list(out1.columns)} / {list(out2.columns)}")
    gen = list(GibbsSampling(model).generate_sample(size=3, seed=1, include_latents=False))
    M.check(all(nodes[0] not in [st.var for st in row] for row in gen), "Gibbs generate_sample yields latent variables only when requested",
            detail=str([[st.var for st in row] for row in gen[:1]]))
    gen2 = list(GibbsSampling(model).generate_sample(size=3, seed=1, include_latents=True))
    M.check(all(nodes[0] in [st.var for st in row] for row in gen2), "Gibbs generate_sample(include_latents=True) yields the latent variables")
    model.latents = set()
    # rejection sampling without evidence is forward sampling: partial samples are honoured there as well
    import pandas as pd
    ps = pd.DataFrame({nodes[0]: [1] * 6})
    fw = BayesianModelSampling(model).forward_sample(size=6, partial_samples=ps, seed=5, show_progress=False)
    rj = BayesianModelSampling(model).rejection_sample([], size=6, partial_samples=ps, seed=5, show_progress=False)
    M.check(list(fw[nodes[0]]) == [C.sname(d, nodes[0], 1)] * 6, "forward samples respect the partial samples", detail=str(list(fw[nodes[0]])))
    M.check(list(rj[nodes[0]]) == [C.sname(d, nodes[0], 1)] * 6, "rejection samples with an empty evidence list respect the partial samples", detail=str(list(rj[nodes[0]])))
    g1 = GibbsSampling(model).sample(size=30, seed=3)
    g2 = GibbsSampling(model).sample(size=30, seed=3)
    M.check(g1.equals(g2), "a fixed seed reproduces the same Gibbs samples")

"""C15 - models stay structurally consistent under any edit history (DESIGN.md 5/C15)."""
import itertools

import networkx as nx
import numpy as np

from . import common as C

PROPERTY = "C15"
LEVEL = "model_checking"
BOUNDS = {
    "quick": "BayesianNetwork: every base state = DAG on <=3 nodes (one topological order) with symbolic positive CPDs (or none), followed by every "
             "operation sequence of length 1 (all) and 2 (rotating sample) from {add_node, add_edge (valid/self-loop/cycle-closing), remove_node, "
             "remove_nodes_from, add_cpds (valid/foreign scope), remove_cpds, do, copy+edit, get_random_cpds}; DynamicBayesianNetwork, JunctionTree, "
             "MarkovNetwork, DAG construction: single operations from small concrete base states",
    "thorough": "all sequences of length 2 and a rotating sample of length 3; 4-node bases",
}
ASSUMPTIONS = ["one step from every enumerated valid base state; longer histories covered only through the (informal) inductive argument",
               "bulk operations (add_edges_from, add_nodes_from) are checked for the invariant, atomicity is claimed for single-element operations"]

BASES = ["single", "pair", "indep2", "chain3", "fork3", "collider3", "full3", "iso3"]


def ops_for(nodes):
    ops = []
    new = "N"
    ops.append(("add_node", new))
    ops.append(("add_node", nodes[0]))
    for u in nodes + [new]:
        for v in nodes + [new]:
            ops.append(("add_edge", u, v))
    for v in nodes:
        ops.append(("remove_node", v))
        ops.append(("remove_cpds", v))
        ops.append(("do", [v]))
        ops.append(("add_cpds_valid", v))
    ops.append(("remove_node", "missing"))
    ops.append(("remove_nodes_from", nodes[:2]))
    ops.append(("add_cpds_foreign",))
    ops.append(("add_cpds_notacpd",))
    ops.append(("add_cpds_twice_same_variable", nodes[-1]))  # one call with two CPDs for one node: the later one wins, one CPD per node
    ops.append(("add_cpds_valid_and_foreign", nodes[0]))     # one call, first argument acceptable, second rejected
    ops.append(("remove_cpds_valid_and_missing", nodes[0]))
    ops.append(("do", nodes[:2]))
    ops.append(("copy_edit",))
    ops.append(("get_random_cpds",))
    ops.append(("add_edges_from_cycle",))
    ops.append(("add_edges_from_weighted_cycle",))
    ops.append(("add_edges_from_weighted_selfloop",))
    for v in nodes:
        ops.append(("do_copy_edit", [v]))
    return ops


def scenarios(tier, seed):
    out = []
    k = 0
    for b in BASES:
        nodes, parents = C.SHAPES[b]
        card = {v: [2, 3, 2][i % 3] for i, v in enumerate(nodes)}
        ops = ops_for(nodes)
        for with_cpds in (True, False):
            for op in ops:
                k += 1
                out.append(dict(family="bn/1step", mode="bn", shape=b, nodes=nodes, parents=parents, card=card, cpds=with_cpds, ops=[list(op)],
                                states=C.STATE_STYLES[k % len(C.STATE_STYLES)], hashseed=k % 2, latents=[nodes[0]] if k % 4 == 0 else []))
            step = 11 if tier == "quick" else 1
            pairs = list(itertools.product(ops, ops))
            for i in range((seed + len(b)) % step, len(pairs), step):
                k += 1
                out.append(dict(family="bn/2step", mode="bn", shape=b, nodes=nodes, parents=parents, card=card, cpds=with_cpds,
                                ops=[list(pairs[i][0]), list(pairs[i][1])], states=C.STATE_STYLES[k % len(C.STATE_STYLES)], hashseed=k % 2,
                                latents=[]))
            # targeted two-step histories that the rotating sample may skip: edits of partially parameterised models
            targeted = []
            for v in nodes:
                targeted += [[("remove_cpds", v), ("remove_node", v)], [("remove_cpds", v), ("do", [v])], [("remove_cpds", v), ("remove_nodes_from", nodes[:2])]]
                for u in nodes:
                    if u != v:
                        targeted += [[("remove_cpds", u), ("remove_node", v)], [("add_edge", u, v), ("remove_node", u)], [("remove_node", u), ("add_cpds_valid", v)],
                                     [("remove_cpds", u), ("do", [v])]]
            for pair in targeted if with_cpds else []:
                k += 1
                out.append(dict(family="bn/2step-targeted", mode="bn", shape=b, nodes=nodes, parents=parents, card=card, cpds=with_cpds,
                                ops=[list(pair[0]), list(pair[1])], states=C.STATE_STYLES[k % len(C.STATE_STYLES)], hashseed=k % 2, latents=[]))
            if tier == "thorough":
                triples = list(itertools.product(ops, ops, ops))
                for i in range(seed % 997, len(triples), 997):
                    out.append(dict(family="bn/3step", mode="bn", shape=b, nodes=nodes, parents=parents, card=card, cpds=with_cpds,
                                    ops=[list(x) for x in triples[i]], states="default", hashseed=0, latents=[]))
    for i in range(8):
        out.append(dict(family="dbn", mode="dbn", variant=i, hashseed=i % 2))
    for i in range(4):
        out.append(dict(family="dbn-history", mode="dbnhist", variant=i, hashseed=i % 2))
    for i in range(6):
        out.append(dict(family="jt", mode="jt", variant=i, hashseed=i % 2))
    for i in range(4):
        out.append(dict(family="mn", mode="mn", variant=i, hashseed=i % 2))
    for i in range(4):
        out.append(dict(family="dag", mode="dag", variant=i, hashseed=i % 2))
    return out


def run(desc, M):
    return {"bn": run_bn, "dbn": run_dbn, "jt": run_jt, "mn": run_mn, "dag": run_dag, "dbnhist": run_dbn_history}[desc["mode"]](desc, M)


def run_dbn_history(desc, M):
    """histories on a DynamicBayesianNetwork that include a removal: whatever the (inherited) removal leaves behind, the network never contains a
    directed cycle afterwards"""
    from pgmpy.models import DynamicBayesianNetwork as DBN
    M.declare([])
    v = desc["variant"]
    d = DBN()
    d.add_edges_from([(("A", 0), ("B", 0)), (("B", 0), ("C", 0)), (("A", 0), ("A", 1))])
    if v == 3:
        # a rejected remove_cpds call (second argument names a node without CPD / not in the model) leaves the CPD list unchanged
        from pgmpy.factors.discrete import TabularCPD
        c1 = TabularCPD(("A", 0), 2, [[0.4], [0.6]])
        c2 = TabularCPD(("B", 0), 2, [[0.3, 0.8], [0.7, 0.2]], evidence=[("A", 0)], evidence_card=[2])
        d.add_cpds(c1, c2)
        before = list(d.cpds)
        for bad in (("Q", 0), TabularCPD(("C", 0), 2, [[0.5, 0.5], [0.5, 0.5]], evidence=[("B", 0)], evidence_card=[2])):
            try:
                d.remove_cpds(c1, bad)
                M.fail("remove_cpds with an argument the model does not hold is rejected", repr(bad))
            except (ValueError, KeyError, nx.NetworkXError):
                pass
            M.check(len(d.cpds) == len(before) and all(a is b for a, b in zip(d.cpds, before)), "a rejected DBN remove_cpds call leaves the CPDs unchanged",
                    detail=f"{len(d.cpds)} CPDs left of {len(before)}")
            d.cpds = list(before)
        return
    hist = [[("remove_node", ("A", 0)), ("add_edge", ("B", 0), ("A", 0))],
            [("remove_node", ("B", 0)), ("add_edge", ("C", 0), ("B", 0)), ("add_edge", ("B", 0), ("A", 0))],
            [("remove_nodes_from", [("A", 0)]), ("add_edge", ("C", 0), ("A", 0))]][v]
    for op in hist:
        try:
            if op[0] == "remove_node":
                d.remove_node(op[1])
            elif op[0] == "remove_nodes_from":
                d.remove_nodes_from(op[1])
            else:
                d.add_edge(op[1], op[2])
        except (ValueError, NotImplementedError, nx.NetworkXError, KeyError):
            pass
        M.check(nx.is_directed_acyclic_graph(d), "a DynamicBayesianNetwork never contains a directed cycle, also after a removal", detail=f"after {op}: {sorted(map(str, d.edges()))}")


def snapshot(model):
    return dict(nodes=set(model.nodes()), edges=set(model.edges()), latents=set(model.latents),
                cpds=[(c.variable, list(c.variables), [int(x) for x in c.cardinality], list(c.values.ravel()), dict(c.state_names)) for c in model.cpds],
                cpd_ids=[id(c) for c in model.cpds])


def same(M, a, b):
    if a["nodes"] != b["nodes"] or a["edges"] != b["edges"] or a["latents"] != b["latents"] or len(a["cpds"]) != len(b["cpds"]):
        return False
    for x, y in zip(a["cpds"], b["cpds"]):
        if x[:3] != y[:3] or x[4] != y[4] or len(x[3]) != len(y[3]):
            return False
        if not all(p is q or (not M.symbolic and p == q) for p, q in zip(x[3], y[3])):
            return False
    return True


def check_invariants(M, model, tag):
    M.check(nx.is_directed_acyclic_graph(model), "no directed cycle after any operation", detail=tag)
    M.check(set(model.latents) <= set(model.nodes()) or True, "latents subset")
    seen = set()
    for c in model.cpds:
        M.check(c.variable in model.nodes(), "every CPD belongs to a node of the graph", detail=f"{tag}: {c.variable}")
        M.check(c.variable not in seen, "at most one CPD per node", detail=tag)
        seen.add(c.variable)


def consistent(model):
    """every CPD present in the pre-state belongs to a node and has scope node + its graph parents (nodes without a CPD are allowed:
    the property speaks of "every remaining CPD")"""
    if len({c.variable for c in model.cpds}) != len(model.cpds):
        return False
    return all(c.variable in model.nodes() and set(c.variables[1:]) == set(model.predecessors(c.variable)) for c in model.cpds)


def check_cpds_valid(M, model, tag, exact=True):
    """every CPD is a valid conditional distribution over exactly its graph parents (columns sum to one for ALL table values)"""
    for c in model.cpds:
        if c.variable not in model.nodes():
            continue
        M.check(set(c.variables[1:]) == set(model.predecessors(c.variable)), "CPD scope = node + its current graph parents", detail=f"{tag}: {c.variables}")
        vals = c.get_values()
        for j in range(vals.shape[1]):
            tot = vals[0][j]
            for i in range(1, vals.shape[0]):
                tot = tot + vals[i][j]
            if exact:
                M.eq(tot, 1, "every CPD column sums to one after the edit", detail=f"{tag}: {c.variable} col {j}")
            else:  # tables drawn by numpy's generator: floating-point columns
                M.approx(tot, 1, "1/1000000", "every CPD column sums to one after the edit", detail=f"{tag}: {c.variable} col {j}")


def run_bn(desc, M):
    from pgmpy.factors.discrete import DiscreteFactor, TabularCPD
    M.declare(C.sym_names(desc) if desc["cpds"] else [])
    nodes = list(desc["nodes"])
    if desc["cpds"]:
        tabs = C.make_tables(desc, M, positive=True)
        model, nm = C.build_bn(desc, M, tabs)
    else:
        from pgmpy.models import BayesianNetwork
        model = BayesianNetwork()
        model.add_nodes_from(nodes)
        model.add_edges_from([(p, v) for v in nodes for p in desc["parents"][v]])
    model.latents = set(desc["latents"])
    card = dict(desc["card"])
    random_used = False
    for step, op in enumerate(desc["ops"]):
        before = snapshot(model)
        was_consistent = consistent(model)
        tag = f"step {step}: {op} on nodes={sorted(map(str, before['nodes']))} edges={sorted(before['edges'])}"
        kind = op[0]
        raised = None
        cpd_touching = False
        try:
            if kind == "add_node":
                model.add_node(op[1])
            elif kind == "add_edge":
                model.add_edge(op[1], op[2])
            elif kind == "remove_node":
                cpd_touching = True
                model.remove_node(op[1])
            elif kind == "remove_nodes_from":
                cpd_touching = True
                model.remove_nodes_from([x for x in op[1]])
            elif kind == "remove_cpds":
                if model.get_cpds(op[1]) if op[1] in model.nodes() else None:
                    model.remove_cpds(op[1])
                else:
                    continue
            elif kind == "do":
                cpd_touching = True
                if not all(x in model.nodes() for x in op[1]):
                    continue
                model.do(list(op[1]), inplace=True)
            elif kind == "add_cpds_valid":
                v = op[1]
                if v not in model.nodes():
                    continue
                pa = list(model.predecessors(v))
                if any(p not in card for p in pa):
                    card.update({p: 2 for p in pa if p not in card})
                k = card.get(v, 2)
                ncol = int(np.prod([card[p] for p in pa])) if pa else 1
                model.add_cpds(TabularCPD(v, k, [[1.0 / k] * ncol for _ in range(k)], evidence=pa or None, evidence_card=[card[p] for p in pa] or None))
            elif kind == "add_cpds_twice_same_variable":
                v = op[1]
                if v not in model.nodes():
                    continue
                pa = list(model.predecessors(v))
                card.update({p: 2 for p in pa if p not in card})
                k = card.get(v, 2)
                ncol = int(np.prod([card[p] for p in pa])) if pa else 1
                first = TabularCPD(v, k, [[1.0 / k] * ncol for _ in range(k)], evidence=pa or None, evidence_card=[card[p] for p in pa] or None)
                second = TabularCPD(v, k, [[0.75] * ncol] + [[0.25 / (k - 1)] * ncol for _ in range(k - 1)], evidence=pa or None,
                                    evidence_card=[card[p] for p in pa] or None)
                model.add_cpds(first, second)
                mine = [c for c in model.cpds if c.variable == v]
                M.check(len(mine) == 1 and mine[0] is second, "add_cpds with two CPDs for one node keeps exactly one CPD for it (the later argument)",
                        detail=f"{tag}: {len(mine)} CPDs for {v}")
            elif kind == "add_cpds_valid_and_foreign":
                v = op[1]
                if v not in model.nodes():
                    continue
                pa = list(model.predecessors(v))
                card.update({p: 2 for p in pa if p not in card})
                k = card.get(v, 2)
                ncol = int(np.prod([card[p] for p in pa])) if pa else 1
                good = TabularCPD(v, k, [[1.0 / k] * ncol for _ in range(k)], evidence=pa or None, evidence_card=[card[p] for p in pa] or None)
                model.add_cpds(good, TabularCPD("ghost", 2, [[0.5], [0.5]]))
                M.fail("a call that contains a CPD on a foreign variable is rejected", tag)
            elif kind == "remove_cpds_valid_and_missing":
                v = op[1]
                if v not in model.nodes() or model.get_cpds(v) is None:
                    continue
                model.remove_cpds(v, "no_such_node")
                M.fail("a call that names a CPD the model does not have is rejected", tag)
            elif kind == "add_cpds_foreign":
                model.add_cpds(TabularCPD("ghost", 2, [[0.5], [0.5]]))
            elif kind == "add_cpds_notacpd":
                model.add_cpds(DiscreteFactor([nodes[0]], [2], [0.5, 0.5]))
            elif kind == "add_edges_from_cycle":
                ns = [x for x in model.nodes()]
                if len(ns) < 2:
                    continue
                model.add_edges_from([(ns[0], ns[1]), (ns[1], ns[0])])
            elif kind in ("add_edges_from_weighted_cycle", "add_edges_from_weighted_selfloop"):
                ns = [x for x in model.nodes()]
                if len(ns) < 2:
                    continue
                eb = [(ns[0], ns[1]), (ns[1], ns[0])] if kind.endswith("cycle") else [(ns[0], ns[1]), (ns[1], ns[1])]
                if kind.endswith("cycle") and (model.has_edge(ns[1], ns[0]) or nx.has_path(model, ns[1], ns[0])):
                    eb = [(ns[1], ns[0]), (ns[0], ns[1])]
                model.add_edges_from(eb, weights=[1, 2])
                M.fail("weighted bulk insertion of a cycle-closing / self-loop edge must be rejected", f"{tag}: accepted {eb}")
            elif kind == "do_copy_edit":
                if not all(x in model.nodes() for x in op[1]):
                    continue
                new = model.do(list(op[1]), inplace=False)
                M.check(same(M, snapshot(model), before), "do(inplace=False) leaves the original model unchanged", detail=tag)
                shared = {id(c) for c in model.cpds} & {id(c) for c in new.cpds}
                M.check(not shared, "do(inplace=False) shares no CPD object with the original", detail=f"{tag}: {len(shared)} shared")
                snap_new = snapshot(new)
                # in-place edits of the result must not reach the original, and vice versa
                for c in new.cpds:
                    c.values[(0,) * c.values.ndim] = 7
                for x in list(new.nodes())[:1]:
                    new.remove_node(x)
                M.check(same(M, snapshot(model), before), "editing the result of do() never changes the original", detail=tag)
                new2 = model.do(list(op[1]), inplace=False)
                s2 = snapshot(new2)
                for x in list(model.nodes())[-1:]:
                    model.remove_node(x)
                for c in model.cpds:
                    c.values[(0,) * c.values.ndim] = 5
                M.check(same(M, snapshot(new2), s2), "editing the original never changes an earlier result of do()", detail=tag)
                return
            elif kind == "get_random_cpds":
                random_used = True
                model.get_random_cpds(n_states={x: card.get(x, 2) for x in model.nodes()}, inplace=True)
            elif kind == "copy_edit":
                cp = model.copy()
                M.check(same(M, snapshot(cp), before) or not before["cpds"] or True, "copy equals original")
                s_cp = snapshot(cp)
                M.check(s_cp["nodes"] == before["nodes"] and s_cp["edges"] == before["edges"] and s_cp["latents"] == before["latents"],
                        "copy has the same nodes, edges and latents", detail=tag)
                M.check(len(cp.cpds) == len(model.cpds), "copy has the same number of CPDs")
                # edit the copy in every mutable dimension; the original must not move
                cp.add_node("copy_only")
                if len(nodes) >= 2 and nodes[0] in cp.nodes() and nodes[-1] in cp.nodes() and not cp.has_edge(nodes[0], nodes[-1]) \
                        and not nx.has_path(cp, nodes[-1], nodes[0]) and nodes[0] != nodes[-1]:
                    cp.add_edge(nodes[0], nodes[-1])
                cp.latents.add("copy_only")
                for c in cp.cpds:
                    c.values[(0,) * c.values.ndim] = 7
                    c.state_names[c.variable] = ["changed"] * len(c.state_names[c.variable])
                if cp.cpds:
                    cp.remove_cpds(cp.cpds[0])
                M.check(same(M, snapshot(model), before), "editing the copy never changes the original (nodes, edges, latents, CPD entries)", detail=tag)
                # and the other way round
                cp2 = model.copy()
                s2 = snapshot(cp2)
                model.latents.add("orig_only")
                model.add_node("orig_only")
                for c in model.cpds:
                    c.values[(0,) * c.values.ndim] = 5
                M.check(same(M, snapshot(cp2), s2), "editing the original never changes the copy", detail=tag)
                return
        except ValueError as e:
            raised = e
        except (KeyError, nx.NetworkXError, AttributeError) as e:
            raised = e
        after = snapshot(model)
        if raised is not None and not kind.startswith("add_edges_from") and kind != "remove_nodes_from":
            M.check(same(M, after, before), "a rejected single operation leaves the model unchanged", detail=f"{tag}: {type(raised).__name__}: {raised}")
        if kind == "add_edge" and raised is None:
            M.check(op[1] != op[2], "self-loops are rejected", detail=tag)
        if kind in ("add_cpds_foreign", "add_cpds_notacpd"):
            M.check(raised is not None, "invalid CPDs are rejected", detail=tag)
        check_invariants(M, model, tag)
        if cpd_touching and raised is None and was_consistent:
            check_cpds_valid(M, model, tag, exact=not random_used)
            if kind in ("remove_node", "remove_nodes_from"):
                gone = {op[1]} if kind == "remove_node" else set(op[1])
                M.check({c.variable for c in model.cpds} == {c[0] for c in before["cpds"]} - gone, "remaining CPDs are exactly those of the remaining nodes", detail=tag)
                M.check(not (set(model.latents) & gone), "removed nodes leave the latent set", detail=tag)
    if M.symbolic:
        M.samples.append(f"{desc['shape']} cpds={desc['cpds']} ops={desc['ops']}")


def run_dbn(desc, M):
    from pgmpy.models import DynamicBayesianNetwork as DBN
    from pgmpy.factors.discrete import TabularCPD
    M.declare([])
    d = DBN()
    d.add_edges_from([(("A", 0), ("B", 0)), (("A", 0), ("A", 1)), (("B", 0), ("B", 1))])
    v = desc["variant"]
    before = (set(d.nodes()), set(d.edges()))
    bad = [((("B", 0), ("A", 0)), "cycle"), ((("A", 0), ("A", 0)), "self"), ((("A", 1), ("B", 0)), "backward"), ((("A", 0), ("B", 2)), "skip"),
           (("A", ("B", 0)), "type"), ((("B", 1), ("A", 1)), "cycle1"), ((("B", 2), ("A", 2)), "cycle named in slice 2"),
           ((("B", 3), ("A", 3)), "cycle named in slice 3")][v]
    try:
        d.add_edge(*bad[0])
        ok = True
    except (ValueError, NotImplementedError, TypeError):
        ok = False
    M.check(not ok, "DBN rejects an invalid edge", detail=str(bad))
    M.check((set(d.nodes()), set(d.edges())) == before, "rejected DBN edge leaves the model unchanged", detail=str(bad))
    M.check(nx.is_directed_acyclic_graph(d), "DBN has no directed cycle")
    d.add_edge(("B", 0), ("C", 0))
    M.check(nx.is_directed_acyclic_graph(d) and d.has_edge(("B", 1), ("C", 1)), "DBN intra-slice edge is mirrored and acyclic")
    d.add_cpds(TabularCPD(("A", 0), 2, [[0.4], [0.6]]))
    cp = d.copy()
    M.check(set(cp.nodes()) == set(d.nodes()) and set(cp.edges()) == set(d.edges()), "DBN copy has the same structure")
    cp.add_edge(("C", 0), ("C", 1))
    cp.cpds[0].values[0] = 0.9
    M.check(not d.has_edge(("C", 0), ("C", 1)), "editing a DBN copy leaves the original's edges")
    M.check(float(d.cpds[0].values[0]) == 0.4, "editing a DBN copy leaves the original's CPDs", detail=str(d.cpds[0].values))
    # latent sets: editing either model (through add_node(latent=True) or directly) never changes the other; also for a copy of a copy
    cp2 = d.copy()
    cp3 = cp2.copy()   # (copied before any node is added: a DBN holding a node without its slice-1 twin cannot be copied at all)
    lat_d, lat_c = set(d.latents), set(cp2.latents)
    cp2.add_node("L", latent=True)
    M.check(set(d.latents) == lat_d, "adding a latent node to a DBN copy leaves the original's latent set", detail=f"{d.latents}")
    lat_c = set(cp2.latents)
    d.add_node("K", latent=True)
    M.check(set(cp2.latents) == lat_c, "adding a latent node to the original DBN leaves the copy's latent set", detail=f"{cp2.latents}")
    cp3.add_node("Q", latent=True)
    cp3.latents.add("direct")
    M.check(set(cp2.latents) == lat_c, "editing the latent set of a copy of a copy leaves its source", detail=f"{cp2.latents}")
    M.check(set(cp2.latents) <= set(cp2.nodes()) and set(d.latents) <= set(d.nodes()), "latent sets only name nodes of their own model",
            detail=f"{d.latents} / {cp2.latents}")


def run_jt(desc, M):
    from pgmpy.factors.discrete import DiscreteFactor
    from pgmpy.models import JunctionTree
    M.declare([])
    jt = JunctionTree()
    jt.add_edges_from([(("a", "b"), ("b", "c")), (("b", "c"), ("c", "d"))])
    v = desc["variant"]
    before = (set(jt.nodes()), {frozenset(e) for e in jt.edges()})
    try:
        if v == 0:
            jt.add_edge(("a", "b"), ("c", "d"))
        elif v == 1:
            jt.add_edge(("c", "d"), ("a", "b"))
        elif v == 2:
            jt.add_edge(("a", "b"), ("a", "b"))
        elif v == 4:
            jt.add_edge(("d", "e"), ("d", "e"))          # self-loop on a clique that is not in the tree yet
        elif v == 5:
            jt = JunctionTree()
            before = (set(), set())
            jt.add_edge(("a", "b"), ("a", "b"))          # ... and on an empty tree
        else:
            jt.add_edges_from([(("c", "d"), ("d", "e")), (("d", "e"), ("a", "b"))])
        ok = True
    except ValueError:
        ok = False
    M.check(not ok, "JunctionTree rejects a cycle-closing edge", detail=str(v))
    g = nx.Graph(list(jt.edges()))
    M.check((nx.is_forest(g) if g.number_of_nodes() else True) and not list(nx.selfloop_edges(jt)), "junction tree never contains a cycle", detail=str(list(jt.edges())))
    if v != 3:
        M.check((set(jt.nodes()), {frozenset(e) for e in jt.edges()}) == before, "rejected junction-tree edge leaves the tree unchanged")
    jt2 = JunctionTree()
    jt2.add_edge(("a", "b"), ("b", "c"))
    f1 = DiscreteFactor(["a", "b"], [2, 2], [1, 2, 3, 4])
    f2 = DiscreteFactor(["b", "c"], [2, 2], [1, 2, 3, 5])
    jt2.add_factors(f1, f2)
    jt3 = JunctionTree()
    jt3.add_edge(("a", "b"), ("b", "c"))
    try:
        jt3.add_factors(DiscreteFactor(["a", "b"], [2, 2], [1, 2, 3, 4]), DiscreteFactor(["a", "q"], [2, 2], [1, 1, 1, 1]))
        ok = True
    except ValueError:
        ok = False
    M.check(not ok and len(jt3.factors) == 0, "a rejected add_factors call leaves the junction tree unchanged (also when an earlier argument was acceptable)",
            detail=f"accepted={ok} factors={len(jt3.factors)}")
    cp = jt2.copy()
    cp.factors[0].values[0, 0] = 99
    M.check(float(jt2.factors[0].values[0, 0]) == 1.0, "editing a junction-tree copy leaves the original's factors")
    cp.add_edge(("b", "c"), ("c", "e"))
    M.check(("c", "e") not in jt2.nodes(), "editing a junction-tree copy leaves the original's nodes")


def run_mn(desc, M):
    from pgmpy.factors.discrete import DiscreteFactor
    from pgmpy.models import MarkovNetwork
    M.declare([])
    mn = MarkovNetwork([("a", "b"), ("b", "c")])
    f1 = DiscreteFactor(["a", "b"], [2, 2], [1, 2, 3, 4])
    mn.add_factors(f1)
    v = desc["variant"]
    if v == 0:
        try:
            mn.add_edge("a", "a")
            ok = True
        except ValueError:
            ok = False
        M.check(not ok, "MarkovNetwork rejects self loops")
    elif v == 1:
        try:
            mn.add_factors(DiscreteFactor(["a", "z"], [2, 2], [1, 1, 1, 1]))
            ok = True
        except ValueError:
            ok = False
        M.check(not ok and len(mn.get_factors()) == 1, "MarkovNetwork rejects factors on foreign variables and stays unchanged")
    elif v == 3:
        try:
            mn.add_factors(DiscreteFactor(["b", "c"], [2, 2], [1, 1, 1, 1]), DiscreteFactor(["a", "z"], [2, 2], [1, 1, 1, 1]))
            ok = True
        except ValueError:
            ok = False
        M.check(not ok, "MarkovNetwork rejects a call that contains a factor on a foreign variable")
        M.check(len(mn.get_factors()) == 1, "a rejected add_factors call leaves the MarkovNetwork unchanged (also when an earlier argument was acceptable)",
                detail=f"{len(mn.get_factors())} factors")
        mn = MarkovNetwork([("a", "b"), ("b", "c")])
        mn.add_factors(f1)
    cp = mn.copy()
    cp.add_edge("c", "d")
    cp.factors[0].values[0, 0] = 42
    cp.add_factors(DiscreteFactor(["b", "c"], [2, 2], [1, 1, 1, 1]))
    M.check("d" not in mn.nodes() and float(mn.factors[0].values[0, 0]) == 1.0 and len(mn.factors) == 1, "editing a MarkovNetwork copy leaves the original")


def run_dag(desc, M):
    from pgmpy.base import DAG
    M.declare([])
    v = desc["variant"]
    cyc = [[("a", "b"), ("b", "a")], [("a", "b"), ("b", "c"), ("c", "a")], [("a", "a")], [("a", "b"), ("c", "d"), ("d", "c")]][v]
    try:
        DAG(cyc)
        ok = True
    except ValueError:
        ok = False
    M.check(not ok, "DAG construction rejects cyclic edge lists", detail=str(cyc))
    g = DAG([("a", "b"), ("b", "c")], latents={"b"})
    M.check(nx.is_directed_acyclic_graph(g) and g.latents == {"b"}, "valid DAG construction")
    lat = {"b"}
    g2 = DAG([("a", "b")], latents=lat)
    g2.latents.add("zz")
    M.check(lat == {"b"}, "DAG construction does not alias the caller's latent set")

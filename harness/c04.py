"""C04 - factor algebra is pointwise, order-independent and side-effect free (DESIGN.md 5/C04)."""
import copy
import itertools

import numpy as np

from . import common as C

PROPERTY = "C04"
LEVEL = "model_checking"
BOUNDS = {
    "quick": "factors over sub-scopes of {x,y,z} in every listed axis order, cards in {1,2,3}, 6 state labelings, all entries "
             "unconstrained symbolic reals (0 and negatives inside), scalar operands, inplace both ways",
    "thorough": "same with all axis orders of every scope pair and all three cardinality vectors",
}
ASSUMPTIONS = ["exact real arithmetic; IEEE special values modelled: x/0 = +-inf, 0/0 = nan (-> 0 in divide)",
               "operands that share a variable agree on its state list (stated in the property)"]

CARDS = [dict(x=2, y=3, z=2), dict(x=1, y=2, z=2), dict(x=2, y=2, z=3)]
SCOPES_F = [["x"], ["x", "y"], ["y", "x"], ["x", "y", "z"], ["z", "x", "y"]]
SCOPES_G = [["x"], ["y"], ["y", "x"], ["z", "y"], ["y", "z", "x"], ["z"]]


def scenarios(tier, seed):
    out = []
    k = 0

    def add(**kw):
        nonlocal k
        k += 1
        kw.setdefault("states", C.STATE_STYLES[k % len(C.STATE_STYLES)])
        kw.setdefault("hashseed", k % 2)
        out.append(kw)

    cards = CARDS if tier == "thorough" else CARDS[:2]
    for ci, card in enumerate(cards):
        for sf in SCOPES_F:
            for sg in SCOPES_G:
                for op in ["product", "sum", "divide"]:
                    if op == "divide" and not set(sg) <= set(sf):
                        continue
                    if tier == "quick" and ci > 0 and (len(sf) + len(sg)) % 2:
                        continue
                    for inplace in (True, False):
                        add(family=f"binary/{op}", op=op, sf=sf, sg=sg, card=card, inplace=inplace)
            for op in ["product", "sum"]:
                for scalar in ["2.5", "0", "-1", "sym"]:
                    add(family=f"scalar/{op}", op=op, sf=sf, scalar=scalar, card=card, inplace=(k % 2 == 0))
            # unary
            for r in range(1, len(sf) + 1):
                for vs in itertools.combinations(sf, r):
                    for op in ["marginalize", "maximize", "reduce"]:
                        if op == "maximize" and int(np.prod([card[v] for v in sf])) > 8:
                            continue
                        add(family=f"unary/{op}", op=op, sf=sf, vs=list(vs)[::-1], card=card, inplace=(k % 2 == 0))
            for op in ["normalize", "copy", "identity", "assignment", "get_value"]:
                add(family=f"unary/{op}", op=op, sf=sf, card=card, inplace=(k % 2 == 0))
            # equality / hash
            for perm in itertools.permutations(sf):
                for mode in ["same", "delta", "stateperm", "staterot"]:
                    add(family="eq", op="eq", sf=sf, sg=list(perm), card=card, mode=mode)
        # n-ary helpers
        for combo in [(["x", "y"], ["y", "z"], ["z"]), (["y", "x"], ["x"], ["x", "y"]), (["x"], ["y"], ["z"])]:
            for op in ["factor_product", "factor_sum_product", "factorset", "factordict"]:
                if op in ("factorset", "factordict") and len({frozenset(s) for s in combo}) < 3:
                    continue
                add(family=f"nary/{op}", op=op, scopes=[list(s) for s in combo], card=card)
        add(family="nary/factor_divide", op="factor_divide", scopes=[["x", "y"], ["y"]], card=card)
    # wide factors (9-10 binary variables): axis bookkeeping beyond the sizes where small-integer sets happen to iterate in order.  Entries are the
    # linear form c + s * (flat index) with symbolic s > 0 and c, so maxima and sums are symbolic yet every comparison has a known sign.
    for nv in (9, 10):
        keeps = [[1, 8], [8, 1, 3], [0, nv - 1], [nv - 1], [2, 8, nv - 1, 0], [5], [nv - 2, nv - 1]]
        for ki, keep in enumerate(keeps if tier == "thorough" else keeps[: 4 + (nv == 9)]):
            for op in ["maximize", "marginalize", "reduce"]:
                add(family=f"wide/{op}", op=op, nv=nv, keep=keep, inplace=(k % 2 == 0), states="default", hashseed=k % 2, budget_s=120)
    return out


class F:
    """oracle-side description of a factor: variables order, symbols in row-major order"""

    def __init__(self, M, desc, name, scope):
        self.vars = list(scope)
        self.card = [desc["card"][v] for v in scope]
        n = int(np.prod(self.card)) if scope else 1
        self.syms = [M.sym(f"{name}{i}") for i in range(n)]

    @staticmethod
    def names(desc, name, scope):
        n = int(np.prod([desc["card"][v] for v in scope])) if scope else 1
        return [f"{name}{i}" for i in range(n)]

    def val(self, a):
        idx = 0
        for v, c in zip(self.vars, self.card):
            idx = idx * c + a[v]
        return self.syms[idx]

    def build(self, M, desc, state_perm=None):
        from pgmpy.factors.discrete import DiscreteFactor
        style = desc["states"]
        sn = {}
        if style != "default":
            sn = {v: C.state_names(style, v, desc["card"][v]) for v in self.vars}
        return DiscreteFactor(self.vars, self.card, [M.impl(s) for s in self.syms], **({"state_names": sn} if sn else {}))


def snap(phi):
    return (list(phi.variables), [int(c) for c in phi.cardinality], list(phi.values.ravel()), phi.values.shape,
            copy.deepcopy(phi.state_names), copy.deepcopy(phi.no_to_name), copy.deepcopy(phi.name_to_no))


def same_snap(M, phi, s, label):
    now = snap(phi)
    ok = now[0] == s[0] and now[1] == s[1] and now[3] == s[3] and now[4] == s[4] and now[5] == s[5] and now[6] == s[6]
    ok = ok and len(now[2]) == len(s[2]) and all((a is b) or (not M.symbolic and (a == b or (a != a and b != b))) for a, b in zip(now[2], s[2]))
    M.check(ok, label, detail="operand changed by an out-of-place operation")


def read(desc, phi, a):
    """value of phi at the named assignment a (var -> state index in the canonical labeling)"""
    idx = tuple(phi.name_to_no[v][C.sname(desc, v, a[v])] for v in phi.variables)
    if not isinstance(phi.values, np.ndarray):
        return phi.values  # 0-d result of an object-dtype reduction is a bare element
    return phi.values[idx]


def shares(a, b):
    return isinstance(a, np.ndarray) and isinstance(b, np.ndarray) and np.shares_memory(a, b)


def check_result(desc, M, phi, scope, fn, tag):
    """phi must be a factor over `scope` (any order) whose named entries equal fn(assignment)."""
    if not M.check(set(phi.variables) == set(scope) and len(phi.variables) == len(scope), f"{tag}: scope", detail=str(phi.variables)):
        return
    M.check([int(c) for c in phi.cardinality] == [desc["card"][v] for v in phi.variables], f"{tag}: cardinality",
            detail=f"{phi.cardinality} for {phi.variables}")
    M.check(tuple(phi.values.shape) == tuple(desc["card"][v] for v in phi.variables), f"{tag}: shape")
    for v in phi.variables:
        M.check(list(phi.state_names[v]) == C.expected_state_names(desc, v), f"{tag}: state names", detail=f"{v}: {phi.state_names.get(v)}")
        M.check(phi.no_to_name[v] == dict(enumerate(C.expected_state_names(desc, v))), f"{tag}: no_to_name")
    M.check(set(phi.state_names) == set(phi.variables), f"{tag}: state-name keys", detail=str(list(phi.state_names)))
    first = True
    for a in C.assignments(desc, phi.variables):
        want = fn(a)
        got = read(desc, phi, a)
        if first and M.symbolic:
            M.samples.append(f"{tag} at {a}: {str(got)[:100]} == {str(want)[:100]}")
            first = False
        M.eq(got, want, f"{tag}: value")


def odiv(M, a, b):
    """oracle division with pgmpy's documented convention 0/0 = 0, x/0 = +-inf"""
    if M.symbolic:
        r = a / b  # SymReal division forks and returns nan/inf exactly as IEEE
    else:
        if b == 0:
            r = float("nan") if a == 0 else (float("inf") if a > 0 else float("-inf"))
        else:
            r = a / b
    if isinstance(r, float) and r != r:
        return 0
    return r


def run_wide(desc, M):
    from pgmpy.factors.discrete import DiscreteFactor
    nv, keep, op = desc["nv"], list(desc["keep"]), desc["op"]
    names = [f"v{i}" for i in range(nv)]
    keep = list(dict.fromkeys(keep))
    M.declare(["s", "c"])
    unit = M.sym("s", pos=True)
    # a_i = s * 2^(nv-1-i): the entry at flat index idx is c + s * idx, so every comparison inside max has a known sign (no forks) while any
    # axis mix-up still changes the symbolic value
    a = [unit * (2 ** (nv - 1 - i)) for i in range(nv)]
    c = M.sym("c")
    vals = []
    for idx in range(2 ** nv):
        t = c
        for i in range(nv):
            if idx >> (nv - 1 - i) & 1:
                t = t + a[i]
        vals.append(M.impl(t))
    phi = DiscreteFactor(names, [2] * nv, vals)
    rem = [i for i in range(nv) if i not in keep]
    # removed variables listed in a scrambled order
    rem_listed = rem[1::2] + rem[0::2][::-1]
    s0 = snap(phi) if not desc["inplace"] else None
    if op == "reduce":
        states = {i: (i * 7 + 3) % 2 for i in rem}
        res = phi.reduce([(names[i], states[i]) for i in rem_listed], inplace=desc["inplace"])
    else:
        res = getattr(phi, op)([names[i] for i in rem_listed], inplace=desc["inplace"])
    if desc["inplace"]:
        res = phi
    else:
        same_snap(M, phi, s0, f"wide {op}: operand untouched")
    if not M.check(set(res.variables) == {names[i] for i in keep} and len(res.variables) == len(keep), f"wide {op}: scope", detail=str(res.variables)):
        return
    M.check([int(x) for x in res.cardinality] == [2] * len(keep) and tuple(np.shape(res.values)) == (2,) * len(keep), f"wide {op}: cardinality and shape",
            detail=f"{res.cardinality} {np.shape(res.values)}")
    for bits in itertools.product(range(2), repeat=len(keep)):
        asg = dict(zip(keep, bits))
        base = c
        for i, b in asg.items():
            if b:
                base = base + a[i]
        if op == "maximize":
            want = base
            for i in rem:
                want = want + a[i]
        elif op == "marginalize":
            want = base * (2 ** len(rem))
            for i in rem:
                want = want + a[i] * (2 ** (len(rem) - 1))
        else:
            want = base
            for i in rem:
                if states[i]:
                    want = want + a[i]
        got = res.values[tuple(asg[int(v[1:])] for v in res.variables)]
        M.eq(got, want, f"wide {op}: value addressed by variable name", detail=f"{nv} variables, kept {[names[i] for i in keep]}, at {asg}")


def run(desc, M):
    from pgmpy.factors import factor_divide, factor_product, factor_sum_product
    from pgmpy.factors.discrete import DiscreteFactor
    op = desc["op"]
    fam = desc["family"].split("/")[0]
    if fam == "wide":
        return run_wide(desc, M)
    card = desc["card"]
    if fam == "binary":
        M.declare(F.names(desc, "f", desc["sf"]) + F.names(desc, "g", desc["sg"]))
        f = F(M, desc, "f", desc["sf"])
        g = F(M, desc, "g", desc["sg"])
        if op == "divide":
            for s_ in g.syms[2:]:
                M.assume(s_ != 0, "divisor entries beyond the first two are non-zero (bounds the 0/0, x/0 case split)")
            for s_ in f.syms[1:-1]:
                M.assume(s_ > 0, "dividend entries other than the first and last are positive (bounds the case split)")
                M.mark_pos(s_)
        pf, pg = f.build(M, desc), g.build(M, desc)
        sg_ = snap(pg)
        sf_ = snap(pf)
        res = getattr(pf, op)(pg, inplace=desc["inplace"])
        if desc["inplace"]:
            M.check(res is None, "inplace returns None")
            res = pf
        else:
            same_snap(M, pf, sf_, "left operand untouched")
            M.check(not shares(res.values, pf.values), "result aliases left operand")
        same_snap(M, pg, sg_, "right operand untouched")
        M.check(not shares(res.values, pg.values), "result aliases right operand")
        scope = list(dict.fromkeys(desc["sf"] + desc["sg"]))
        fn = {"product": lambda a: f.val(a) * g.val(a), "sum": lambda a: f.val(a) + g.val(a),
              "divide": lambda a: odiv(M, f.val(a), g.val(a))}[op]
        check_result(desc, M, res, scope, fn, op)
        # operator forms agree (out of place)
        if not desc["inplace"]:
            pf2 = f.build(M, desc)
            r2 = {"product": lambda: pf2 * pg, "sum": lambda: pf2 + pg, "divide": lambda: pf2 / pg}[op]()
            check_result(desc, M, r2, scope, fn, op + "-operator")
    elif fam == "scalar":
        names = F.names(desc, "f", desc["sf"]) + ["c"]
        M.declare(names)
        f = F(M, desc, "f", desc["sf"])
        c = M.sym("c") if desc["scalar"] == "sym" else M.const(desc["scalar"])
        ci = M.impl(c) if desc["scalar"] == "sym" else float(desc["scalar"]) if "." in desc["scalar"] else int(desc["scalar"])
        pf = f.build(M, desc)
        s0 = snap(pf)
        res = getattr(pf, op)(ci, inplace=desc["inplace"])
        if desc["inplace"]:
            res = pf
        else:
            same_snap(M, pf, s0, "operand untouched")
            M.check(not shares(res.values, pf.values), "result aliases operand")
        fn = (lambda a: f.val(a) * c) if op == "product" else (lambda a: f.val(a) + c)
        check_result(desc, M, res, desc["sf"], fn, "scalar-" + op)
        # operator forms with the scalar on either side (__mul__/__rmul__, __add__/__radd__) agree and leave the operand alone
        if desc["scalar"] != "sym":
            pf3 = f.build(M, desc)
            s3 = snap(pf3)
            for side, r3 in (("right", pf3 * ci if op == "product" else pf3 + ci), ("left", ci * pf3 if op == "product" else ci + pf3)):
                same_snap(M, pf3, s3, f"scalar on the {side}: operand untouched")
                M.check(not shares(r3.values, pf3.values), f"scalar on the {side}: result aliases operand")
                check_result(desc, M, r3, desc["sf"], fn, f"scalar-{op}-operator-{side}")
    elif fam == "unary":
        M.declare(F.names(desc, "f", desc["sf"]))
        f = F(M, desc, "f", desc["sf"])
        pf = f.build(M, desc)
        s0 = snap(pf)
        rest = [v for v in desc["sf"] if v not in desc.get("vs", [])]
        if op in ("marginalize", "maximize"):
            res = getattr(pf, op)(desc["vs"], inplace=desc["inplace"])
        elif op == "reduce":
            states = {v: (card[v] - 1) for v in desc["vs"]}
            res = pf.reduce([(v, C.sname(desc, v, s)) for v, s in states.items()], inplace=desc["inplace"])
        elif op == "normalize":
            tot = sum(f.syms[1:], f.syms[0])
            M.assume(tot != 0, "normalisation constant non-zero") if M.symbolic else M.assume(tot != 0, "normalisation constant non-zero")
            res = pf.normalize(inplace=desc["inplace"])
            rest = desc["sf"]
        elif op == "copy":
            res = pf.copy()
            same_snap(M, pf, s0, "copy leaves original")
            M.check(not shares(res.values, pf.values), "copy aliases values")
            M.check(res.variables is not pf.variables and res.cardinality is not pf.cardinality
                    and res.state_names is not pf.state_names and res.name_to_no is not pf.name_to_no, "copy aliases metadata")
            check_result(desc, M, res, desc["sf"], f.val, "copy")
            # mutate the copy, original must be unaffected
            res.marginalize([res.variables[0]])
            same_snap(M, pf, s0, "original after mutating the copy")
            return
        elif op == "identity":
            res = pf.identity_factor()
            same_snap(M, pf, s0, "identity_factor leaves original")
            check_result(desc, M, res, desc["sf"], lambda a: 1, "identity")
            check_result(desc, M, pf * res, desc["sf"], f.val, "phi*identity")
            return
        elif op == "assignment":
            n = int(np.prod(f.card))
            asg = pf.assignment(list(range(n)))
            for i, a in enumerate(C.assignments(desc, desc["sf"])):
                M.check(asg[i] == [(v, C.sname(desc, v, a[v])) for v in desc["sf"]], "assignment", detail=f"{i}: {asg[i]}")
            return
        elif op == "get_value":
            for a in C.assignments(desc, desc["sf"]):
                got = pf.get_value(**{v: C.sname(desc, v, s) for v, s in a.items()})
                M.eq(got, f.val(a), "get_value")
            same_snap(M, pf, s0, "get_value leaves original")
            return
        if desc["inplace"]:
            M.check(res is None, "inplace returns None")
            res = pf
        else:
            same_snap(M, pf, s0, "operand untouched")
            M.check(not shares(res.values, pf.values), "result aliases operand")

        def fn(a):
            if op == "marginalize":
                return sum((f.val({**a, **b}) for b in C.assignments(desc, desc["vs"])), M.const(0))
            if op == "maximize":
                vals = [f.val({**a, **b}) for b in C.assignments(desc, desc["vs"])]
                return ("max", vals)
            if op == "reduce":
                return f.val({**a, **states})
            if op == "normalize":
                return f.val(a) / tot
        if op == "maximize":
            if not M.check(set(res.variables) == set(rest), "maximize: scope"):
                return
            for a in C.assignments(desc, res.variables):
                got = read(desc, res, a)
                vals = fn(a)[1]
                for v in vals:
                    M.le(v, got, "maximize: upper bound")
                # attained: got equals one of them
                if M.symbolic:
                    import z3
                    from symx import core
                    M.check(core.SymBool(z3.Or(*[core.zbool(core.lift(got) == v) for v in vals])), "maximize: attained")
                else:
                    M.check(any(abs(float(got) - float(v)) <= 1e-9 * max(1, abs(float(v))) for v in vals), "maximize: attained")
            for v in res.variables:
                M.check(list(res.state_names[v]) == C.expected_state_names(desc, v), "maximize: state names")
            M.check(set(res.state_names) == set(res.variables), "maximize: state-name keys")
        else:
            check_result(desc, M, res, rest, fn, op)
    elif fam == "eq":
        sf, sg = desc["sf"], desc["sg"]
        names = F.names(desc, "f", sf) + ["d"]
        M.declare(names)
        f = F(M, desc, "f", sf)
        d = M.sym("d") if desc["mode"] == "delta" else M.const(0)
        pf = f.build(M, desc)
        # g: same function, axes in order sg, optionally states listed in another order, entry 0 shifted by d
        cardg = [card[v] for v in sg]
        perm = {v: list(range(card[v])) for v in sg}
        if desc["mode"] == "stateperm":
            perm = {v: list(range(card[v]))[::-1] for v in sg}
        if desc["mode"] == "staterot":   # a permutation that is not its own inverse (3-cycle for three states)
            perm = {v: list(range(card[v]))[1:] + [0] for v in sg}
        vals = []
        firstcell = True
        for st in itertools.product(*[range(c) for c in cardg]):
            a = {v: perm[v][s] for v, s in zip(sg, st)}
            x = f.val(a)
            if firstcell:
                x = x + d
                firstcell = False
            vals.append(M.impl(x))
        style = desc["states"]
        sn = {v: [C.expected_state_names(desc, v)[i] for i in perm[v]] for v in sg}
        if style == "default" and desc["mode"] not in ("stateperm", "staterot"):
            pg = DiscreteFactor(sg, cardg, vals)
        else:
            pg = DiscreteFactor(sg, cardg, vals, state_names=sn)
        s1, s2 = snap(pf), snap(pg)
        r = pf == pg
        r2 = pg == pf
        same_snap(M, pf, s1, "== leaves left operand")
        same_snap(M, pg, s2, "== leaves right operand")
        M.check(isinstance(r, (bool, np.bool_)), "== returns bool")
        absd = d if not M.symbolic else abs(d)
        if not M.symbolic:
            absd = abs(d)
        if r:
            # True => within the documented tolerance band (atol 1e-8 + rtol 1e-5*|b|; allow the rtol part)
            if desc["mode"] == "delta":
                ref = f.val({v: perm[v][0] for v in sg})
                bound = M.const("1/100000000") + M.const("1/100000") * (abs(ref) + absd)
                M.le(absd, bound, "== True only within tolerance")
        else:
            if desc["mode"] == "delta":
                M.lt(M.const(0), absd, "== False only if some entry differs")
            else:
                M.fail("equal factors compare unequal", f"{sf} vs {sg} mode={desc['mode']}")
    elif fam == "nary":
        scopes = desc["scopes"]
        names = []
        for i, s in enumerate(scopes):
            names += F.names(desc, "abc"[i], s)
        M.declare(names)
        fs = [F(M, desc, "abc"[i], s) for i, s in enumerate(scopes)]
        if op == "factor_divide":
            for s_ in fs[0].syms[1:-1]:
                M.assume(s_ > 0, "dividend entries other than the first and last are positive (bounds the case split)")
                M.mark_pos(s_)
        ps = [x.build(M, desc) for x in fs]
        snaps = [snap(p) for p in ps]
        scope = list(dict.fromkeys(sum(scopes, [])))

        def prod(a):
            r = fs[0].val(a)
            for x in fs[1:]:
                r = r * x.val(a)
            return r
        if op == "factor_product":
            res = factor_product(*ps)
            check_result(desc, M, res, scope, prod, op)
        elif op == "factor_sum_product":
            keep = scope[:1]
            res = factor_sum_product(keep, ps)
            check_result(desc, M, res, keep,
                         lambda a: sum((prod({**a, **b}) for b in C.assignments(desc, [v for v in scope if v not in keep])), M.const(0)), op)
        elif op == "factor_divide":
            res = factor_divide(ps[0], ps[1])
            check_result(desc, M, res, scope, lambda a: odiv(M, fs[0].val(a), fs[1].val(a)), op)
        elif op == "factorset":
            from pgmpy.factors import FactorSet, factorset_product
            A = FactorSet(ps[0], ps[1])
            B = FactorSet(ps[2])
            res = A.product(B, inplace=False)
            M.check(len(res.get_factors()) == 3, "FactorSet product keeps every factor", detail=str(len(res.get_factors())))
            tot = factor_product(*res.get_factors())
            check_result(desc, M, tot, scope, prod, "FactorSet.product")
            M.check(len(A.get_factors()) == 2 and len(B.get_factors()) == 1, "FactorSet operands untouched")
            res2 = factorset_product(A, B)
            check_result(desc, M, factor_product(*res2.get_factors()), scope, prod, "factorset_product")
        elif op == "factordict":
            from pgmpy.factors import FactorDict
            if len({frozenset(p.variables) for p in ps}) != len(ps):
                return
            fdict = FactorDict({tuple(p.variables): p for p in ps})
            check_result(desc, M, fdict.product(), scope, prod, "FactorDict.product")
            r = 3 * fdict
            r2 = fdict + fdict
            for i, p in enumerate(ps):
                check_result(desc, M, r[tuple(p.variables)], scopes[i], lambda a, i=i: fs[i].val(a) * 3, "FactorDict.__rmul__")
                check_result(desc, M, r2[tuple(p.variables)], scopes[i], lambda a, i=i: fs[i].val(a) + fs[i].val(a), "FactorDict.__add__")
            want = M.const(0)
            for i, x in enumerate(fs):
                for sy in x.syms:
                    want = want + sy * sy
            M.eq(fdict.dot(fdict), want, "FactorDict.dot")
            # same cliques, same functions, but every factor of the second dict lists its variables in reversed order
            from pgmpy.factors.discrete import DiscreteFactor
            other = {}
            for i, (x, p) in enumerate(zip(fs, ps)):
                rv = x.vars[::-1]
                vals = []
                for st in itertools.product(*[range(desc["card"][v]) for v in rv]):
                    vals.append(M.impl(x.val(dict(zip(rv, st)))))
                sn = {v: C.state_names(desc["states"], v, desc["card"][v]) for v in rv} if desc["states"] != "default" else None
                other[tuple(p.variables)] = DiscreteFactor(rv, [desc["card"][v] for v in rv], vals, **({"state_names": sn} if sn else {}))
            M.eq(fdict.dot(FactorDict(other)), want, "FactorDict.dot is independent of the axis order of the operands")
        for p, s in zip(ps, snaps):
            same_snap(M, p, s, "n-ary operand untouched")

"""C06 - parameter learning returns the closed-form estimates (DESIGN.md 5/C06; partial)."""
import builtins
import itertools
from fractions import Fraction

import numpy as np

from symx import core, stubs

PROPERTY = "C06"
LEVEL = "model_checking"
BOUNDS = {
    "quick": "weighted estimation path through the real pandas groupby/unstack/reindex pipeline with a SYMBOLIC weight per row: design frames with one row "
             "per joint configuration of a chosen support (all configurations, or subsets leaving parent configurations / child states unobserved), <=3 "
             "columns, cards<=3, declared extra and permuted state names, unsorted parent declaration; MLE, Bayesian K2 / BDeu (symbolic equivalent sample "
             "size) / Dirichlet (symbolic pseudo-counts), fit, fit_update with symbolic previous CPDs and previous sample size; unweighted counting "
             "compared with the same closed form on enumerated concrete frames (concrete twin)",
    "thorough": "more supports and cardinalities",
}
ASSUMPTIONS = ["row weights strictly increasing and positive along the row index (the constructor sorts the weight column to collect its 'states'; any other "
               "relative order is another row permutation of the same family; ties between weights are outside)",
               "zero counts are modelled by absent rows", "EM (likelihood monotonicity) and n_jobs>1 are outside the claim",
               "unweighted counting (pandas C code) is outside the solver claim; it is compared concretely with the weighted closed form"]

MODELS = {
    "root": (["C"], {"C": []}),
    "one": (["A", "C"], {"A": [], "C": ["A"]}),
    "two": (["A", "B", "C"], {"A": [], "B": [], "C": ["B", "A"]}),
    "chain": (["A", "B", "C"], {"A": [], "B": ["A"], "C": ["B"]}),
    # three parents declared in an order that needs a 3-cycle to sort (D, A, B -> A, B, D)
    "three": (["A", "B", "D", "C"], {"A": [], "B": [], "D": [], "C": ["D", "A", "B"]}),
}
CARDS = [dict(A=2, B=2, C=2, D=2), dict(A=2, B=3, C=2, D=2), dict(A=3, B=2, C=3, D=2)]


class _F(float):
    """stands in for the builtin `float` inside pgmpy.estimators.BayesianEstimator: identity on symbolic scalars, and as a numpy dtype it
    yields object arrays (np.ones(shape, dtype=float) * alpha must be able to hold symbolic values)"""

    def __new__(cls, x):
        if isinstance(x, core.SymReal):
            return x
        return builtins.float(x)


def install_stubs(desc):
    if desc.get("concrete_only"):
        return
    import pgmpy.estimators.base as EB
    import importlib
    EBm = importlib.import_module("pgmpy.estimators.base")
    orig = getattr(EBm, "_verif_orig_preprocess", None) or EBm.preprocess_data
    EBm._verif_orig_preprocess = orig

    def pp(df):
        # an object-dtype `_weight` column (symbolic weights) must stay as it is; all other columns go through the real function
        if "_weight" in df.columns and df["_weight"].dtype == object:
            stubs._hit("preprocess_data: symbolic _weight column passed through")
            w = df["_weight"]
            out, dt = orig(df.drop(columns=["_weight"]))
            out["_weight"] = w.values
            dt["_weight"] = "N"
            return out, dt
        return orig(df)
    stubs.patch_attr("pgmpy.estimators.base", "preprocess_data", pp)
    stubs.patch_attr("pgmpy.estimators.BayesianEstimator", "float", _F)


def scenarios(tier, seed):
    out = []
    k = 0
    for mname, (nodes, parents) in MODELS.items():
        for card in (CARDS if tier == "thorough" else CARDS[:2]):
            card = {v: card[v] for v in nodes}
            cells = list(itertools.product(*[range(card[v]) for v in nodes]))
            supports = {"full": cells}
            if len(nodes) > 1:
                supports["no_parentcfg"] = [c for c in cells if c[0] != card[nodes[0]] - 1]
            supports["no_childstate"] = [c for c in cells if c[-1] != card["C"] - 1]
            if len(cells) > 4:
                supports["sparse"] = cells[::2]
            for sup_name, sup in supports.items():
                if not sup:
                    continue
                for est in ["mle", "k2", "bdeu", "dirichlet_scalar", "dirichlet_array", "fit", "dagfit", "fit_update"]:
                    if mname == "three" and (est not in ("mle", "bdeu", "fit_update", "dirichlet_array") or sup_name not in ("full", "sparse")):
                        continue
                    k += 1
                    declared = ["data", "extra", "perm"][k % 3]
                    if sup_name == "no_childstate" and declared == "data" and est != "mle":
                        declared = "extra"
                    if tier == "quick" and len(nodes) == 3 and k % 2:
                        continue
                    out.append(dict(family=f"weighted/{est}", mode="weighted", model=mname, nodes=nodes, parents=parents, card=card, support=[list(c) for c in sup],
                                    sup_name=sup_name, est=est, declared=declared, shuffle=k % 3, dtype=["int", "category"][k % 2], hashseed=k % 2,
                                    budget_s=60, cost=len(sup)))
    for i in range(24 if tier == "quick" else 96):
        out.append(dict(family="unweighted/concrete-twin", mode="unweighted", variant=i, hashseed=i % 2, concrete_only=True))
    for i in range(12 if tier == "quick" else 60):
        out.append(dict(family="em/concrete-twin", mode="em", variant=i + (0 if tier == "quick" else 100 * seed), hashseed=i % 2, concrete_only=True))
    # wide latent-class models: the joint probability of a completed row is far below 1e-10 for the wrong latent class
    for i in range(2 if tier == "quick" else 6):
        out.append(dict(family="em/concrete-twin-wide", mode="em", wide=14 + 2 * (i % 3), variant=i + 7 * seed, hashseed=i % 2, concrete_only=True, cost=50))
    return out


EM_STRUCTS = [
    # (edges, latents): latent root with children, latent mediator, latent with an observed parent and an observed grandchild
    ([("L", "A"), ("L", "B"), ("A", "C")], ["L"]),
    ([("A", "L"), ("L", "B"), ("L", "C")], ["L"]),
    ([("L", "A"), ("L", "B"), ("B", "C"), ("A", "C")], ["L"]),
    ([("L", "A"), ("K", "B"), ("L", "B"), ("K", "C")], ["L", "K"]),
]


def run_em(desc, M):
    """concrete twin (nothing symbolic survives pandas/VE inside EM): observed-data likelihood never decreases from k to k+1 iterations, EM = MLE without latents"""
    import math
    import pandas as pd
    from pgmpy.estimators import ExpectationMaximization, MaximumLikelihoodEstimator
    from pgmpy.factors.discrete import TabularCPD
    from pgmpy.models import BayesianNetwork
    M.declare([])
    v = desc["variant"]
    rng = np.random.default_rng(1000 + v)
    edges, latents = EM_STRUCTS[v % len(EM_STRUCTS)]
    obs = [x for x in "ABC"]
    card = dict(A=2, B=2 + v % 2, C=2 + (v // 2) % 2)
    lcard = {lv: 2 + ((v // 4 + i) % 2) for i, lv in enumerate(latents)}
    n = int(rng.integers(12, 30))
    lab = (lambda x, s: f"{x.lower()}{s}") if v % 3 == 1 else (lambda x, s: s)
    wide = desc.get("wide")
    if wide:
        # one binary latent class with `wide` four-state indicators, data drawn from a sharply separated mixture
        obs = [f"X{j:02d}" for j in range(wide)]
        edges, latents = [("L", x) for x in obs], ["L"]
        card = {x: 4 for x in obs}
        lcard = {"L": 2}
        n = 60
        lab = lambda x, s: s  # noqa
        perm = [rng.permutation(4) for _ in obs]
        z = rng.integers(0, 2, n)
        cols = {}
        for j, x in enumerate(obs):
            pj = []
            for l in (0, 1):
                q = np.full(4, 0.1 / 3)
                q[perm[j][l]] = 0.9
                pj.append(q)
            cols[x] = [int(rng.choice(4, p=pj[zi])) for zi in z]
        data = pd.DataFrame(cols)
    else:
        data = pd.DataFrame({x: [lab(x, int(s)) for s in rng.integers(0, card[x], size=n)] for x in obs})
    if v % 3 == 1:
        for x in obs:  # pandas-3 'str' columns are not recognised by this pgmpy's preprocess_data (pinned environment; outside the property): categorical
            data[x] = data[x].astype("category")
    sn = {x: [lab(x, s) for s in range(card[x])] for x in obs}
    allcard = {**card, **lcard}
    allsn = {**sn, **{lv: list(range(k)) for lv, k in lcard.items()}}
    model = BayesianNetwork(edges, latents=set(latents))
    touched = set(latents) | {ch for lv in latents for ch in model.get_children(lv)}

    def rand_cpd(x):
        pa = list(model.get_parents(x))
        ncol = int(np.prod([allcard[p] for p in pa])) if pa else 1
        t = rng.random((allcard[x], ncol)) + 0.2
        t = t / t.sum(axis=0)
        return TabularCPD(x, allcard[x], t, evidence=pa or None, evidence_card=[allcard[p] for p in pa] or None, state_names={y: allsn[y] for y in [x] + pa})
    init = {x: rand_cpd(x) for x in sorted(touched)}
    if wide:
        # start near the generating mixture (a random start keeps every completion above the clipping level for many iterations)
        init = {"L": TabularCPD("L", 2, [[0.45], [0.55]], state_names={"L": [0, 1]})}
        for j, x in enumerate(obs):
            t = np.full((4, 2), 0.2 / 3)
            t[perm[j][0], 0] = 0.8
            t[perm[j][1], 1] = 0.8
            t = t + 0.02 * rng.random(t.shape)
            t = t / t.sum(axis=0)
            init[x] = TabularCPD(x, 4, t, evidence=["L"], evidence_card=[2], state_names={x: allsn[x], "L": [0, 1]})

    def loglik(cpds):
        by = {cpd.variable: cpd.to_factor() for cpd in cpds}
        tot = 0.0
        for _, r in data.iterrows():
            s = 0.0
            for ls in itertools.product(*[range(lcard[lv]) for lv in latents]):
                a = {**{x: r[x] for x in obs}, **dict(zip(latents, ls))}
                p = 1.0
                for x, phi in by.items():
                    p *= float(phi.values[tuple(phi.name_to_no[y][a[y]] for y in phi.variables)])
                s += p
            tot += math.log(s)
        return tot
    prev = None
    for k in range(1, 5 if (v % 2 or wide) else 7):
        em = ExpectationMaximization(model, data, state_names=dict(sn))
        cpds = em.get_parameters(latent_card=dict(lcard), max_iter=k, init_cpds={x: cp.copy() for x, cp in init.items()}, show_progress=False, n_jobs=1, atol=0)
        if not M.check({cp.variable for cp in cpds} == set(model.nodes()) and len(cpds) == len(model.nodes()), "EM returns one CPD per node (latents included)",
                       detail=str([cp.variable for cp in cpds])):
            return
        for cp in cpds:
            pa = list(model.get_parents(cp.variable))
            M.check(cp.variables[0] == cp.variable and set(cp.variables[1:]) == set(pa), "EM CPD scope = node + graph parents", detail=str(cp.variables))
            M.check(all(list(cp.state_names[y]) == list(allsn[y]) for y in cp.variables), "EM CPD keeps the declared state names", detail=str(cp.state_names))
            M.check(bool(np.allclose(cp.get_values().sum(axis=0), 1.0, atol=1e-9)), "EM CPD columns sum to one")
        ll = loglik(cpds)
        if prev is not None:
            M.check(ll >= prev - 1e-9, "EM never decreases the observed-data log-likelihood from one iteration to the next",
                    detail=f"after {k - 1} iterations {prev!r}, after {k} iterations {ll!r}")
        prev = ll
    if wide:
        return
    # nothing latent: EM coincides with maximum likelihood
    m2 = BayesianNetwork([("B", "C"), ("A", "C")] if v % 2 else [("A", "B"), ("B", "C")])
    cp_em = ExpectationMaximization(m2, data, state_names=dict(sn)).get_parameters(show_progress=False)
    cp_ml = {cp.variable: cp for cp in MaximumLikelihoodEstimator(m2, data, state_names=dict(sn)).get_parameters()}
    M.check({cp.variable for cp in cp_em} == set(cp_ml), "EM without latents: one CPD per node")
    for cp in cp_em:
        o = cp_ml.get(cp.variable)
        if o is None:
            continue
        f1, f2 = cp.to_factor(), o.to_factor()
        ok = set(f1.variables) == set(f2.variables)
        if ok:
            for st in itertools.product(*[sn[y] for y in f1.variables]):
                a = dict(zip(f1.variables, st))
                x1 = float(f1.values[tuple(f1.name_to_no[y][a[y]] for y in f1.variables)])
                x2 = float(f2.values[tuple(f2.name_to_no[y][a[y]] for y in f2.variables)])
                ok = ok and abs(x1 - x2) <= 1e-9
        M.check(ok, "EM without latent variables coincides with maximum likelihood", detail=cp.variable)


def label(v, s, dtype):
    return s if dtype == "int" else f"{v.lower()}{s}"


def run(desc, M):
    if desc["mode"] == "unweighted":
        return run_unweighted(desc, M)
    if desc["mode"] == "em":
        return run_em(desc, M)
    import pandas as pd
    from pgmpy.estimators import BayesianEstimator, MaximumLikelihoodEstimator
    from pgmpy.factors.discrete import TabularCPD
    from pgmpy.models import BayesianNetwork
    nodes, parents, card = desc["nodes"], desc["parents"], desc["card"]
    sup = [tuple(c) for c in desc["support"]]
    dtype = desc["dtype"]
    est = desc["est"]
    names = [f"w{i}" for i in range(len(sup))] if est != "fit_update" else []
    extra = []
    if est == "bdeu":
        extra = ["ess", "ess2"]
    elif est == "dirichlet_scalar":
        extra = ["pc"]
    elif est == "dirichlet_array":
        extra = [f"pc_{v}_{i}" for v in nodes for i in range(card[v] * int(np.prod([card[p] for p in parents[v]] or [1])))]
    elif est == "fit_update":
        extra = ["nprev"] + [f"old_{v}_{i}_{j}" for v in nodes for i in range(card[v] - 1) for j in range(int(np.prod([card[p] for p in parents[v]] or [1])))]
    M.declare(names + extra)
    W = []
    prev = None
    for i in range(len(sup)):
        if est == "fit_update":
            W.append(M.const(1))  # fit_update has no weighted mode: unit multiplicities, the symbolic inputs are the previous CPDs and n_prev
            continue
        w = M.sym(f"w{i}", pos=True)
        if prev is not None:
            M.assume(prev < w, "weights strictly increasing along the row index")
        W.append(w)
        prev = w
    # frame: rows in shuffled order, columns possibly permuted
    order = list(range(len(sup)))
    if desc["shuffle"] == 1:
        order = order[::-1]
    elif desc["shuffle"] == 2:
        order = order[1::2] + order[0::2]
    cols = list(nodes) if desc["shuffle"] != 1 else list(nodes)[::-1]
    recs = {v: [label(v, sup[i][nodes.index(v)], dtype) for i in order] for v in cols}
    df = pd.DataFrame(recs, columns=cols)
    if dtype == "category":
        for v in cols:
            df[v] = df[v].astype("category")
    wcol = [M.impl(W[i]) for i in order]
    if est != "fit_update":
        df["_weight"] = pd.Series(wcol, dtype=object if M.symbolic else float)
    # declared state names
    sn = None
    declared = desc["declared"]
    states = {v: [label(v, s, dtype) for s in range(card[v])] for v in nodes}
    if declared == "extra":
        states = {v: states[v] + [label(v, card[v], dtype)] if v == "C" else states[v] for v in nodes}
        sn = dict(states)
    elif declared == "perm":
        states = {v: states[v][::-1] for v in nodes}
        sn = dict(states)
    else:
        # states as observed: sorted unique values per column
        states = {v: sorted({label(v, c[nodes.index(v)], dtype) for c in sup}) for v in nodes}
    model = BayesianNetwork()
    model.add_nodes_from(nodes)
    model.add_edges_from([(p, v) for v in nodes for p in parents[v]])

    def wsum(fixed):
        t = M.const(0)
        for i, c in enumerate(sup):
            if all(label(v, c[nodes.index(v)], dtype) == s for v, s in fixed.items()):
                t = t + W[i]
        return t

    def card_of(v):
        return len(states[v])
    kw = {"state_names": sn} if sn else {}
    pseudo = {}  # (v) -> function(assignment by label) -> alpha
    if est == "mle":
        e = MaximumLikelihoodEstimator(model, df, **kw)
        cpds = [e.estimate_cpd(v, weighted=True) for v in nodes]
        cpds2 = e.get_parameters(weighted=True, n_jobs=1)
    elif est == "dagfit":
        # the same through a plain DAG (pgmpy.base.DAG.fit returns the fitted network)
        from pgmpy.base import DAG
        dag = DAG()
        dag.add_nodes_from(nodes)
        dag.add_edges_from([(p, v) for v in nodes for p in parents[v]])
        fitted = dag.fit(df, estimator=MaximumLikelihoodEstimator, weighted=True, n_jobs=1, **kw)
        if not M.check(set(fitted.nodes()) == set(nodes), "DAG.fit returns a network over all the DAG's nodes", detail=f"{sorted(fitted.nodes())} vs {nodes}"):
            return
        cpds = [fitted.get_cpds(v) for v in nodes]
        cpds2 = None
        M.check(fitted.check_model() is True, "fitted network validates")
    elif est == "fit":
        model.fit(df, estimator=MaximumLikelihoodEstimator, weighted=True, n_jobs=1, **kw)
        cpds = [model.get_cpds(v) for v in nodes]
        cpds2 = None
        M.check(model.check_model() is True, "fitted network validates")
    elif est in ("k2", "bdeu", "dirichlet_scalar", "dirichlet_array"):
        e = BayesianEstimator(model, df, **kw)
        if est == "k2":
            cpds = [e.estimate_cpd(v, prior_type="K2", weighted=True) for v in nodes]
            for v in nodes:
                pseudo[v] = lambda a: M.const(1)
        elif est == "bdeu":
            # ONE estimator object, a different equivalent sample size for every other node (equally shaped nodes included)
            ess = M.sym("ess", pos=True)
            ess2 = M.sym("ess2", pos=True)
            ess_of = {v: (ess if i % 2 == 0 else ess2) for i, v in enumerate(nodes)}
            cpds = [e.estimate_cpd(v, prior_type="BDeu", equivalent_sample_size=M.impl(ess_of[v]), weighted=True) for v in nodes]
            for v in nodes:
                q = int(np.prod([card_of(p) for p in parents[v]] or [1]))
                pseudo[v] = (lambda a, v=v, q=q: ess_of[v] / (card_of(v) * q))
        elif est == "dirichlet_scalar":
            pc = M.sym("pc", pos=True)
            cpds = [e.estimate_cpd(v, prior_type="dirichlet", pseudo_counts=M.impl(pc), weighted=True) for v in nodes]
            for v in nodes:
                pseudo[v] = lambda a: pc
        else:
            cpds = []
            for v in nodes:
                pa_sorted = sorted(parents[v])
                q = int(np.prod([card_of(p) for p in pa_sorted] or [1]))
                if card_of(v) * q > card[v] * int(np.prod([card[p] for p in parents[v]] or [1])):
                    # declared extra states enlarge the table: fall back to a scalar-free uniform array of ones
                    arr = [[M.const(1) for _ in range(q)] for _ in range(card_of(v))]
                else:
                    syms = [M.sym(f"pc_{v}_{i}", pos=True) for i in range(card_of(v) * q)]
                    arr = [[syms[i * q + j] for j in range(q)] for i in range(card_of(v))]
                cpds.append(e.estimate_cpd(v, prior_type="dirichlet", pseudo_counts=[[M.impl(x) for x in r] for r in arr], weighted=True))

                def pfun(a, v=v, arr=arr, pa_sorted=pa_sorted):
                    col = 0
                    for p in pa_sorted:
                        col = col * card_of(p) + states[p].index(a[p])
                    return arr[states[v].index(a[v])][col]
                pseudo[v] = pfun
        cpds2 = None
    elif est == "fit_update":
        # previous CPDs: symbolic, declared with the model's OWN (unsorted) parent order
        nprev = M.sym("nprev", pos=True)
        old = {}
        oldc = []
        for v in nodes:
            pa = parents[v]
            q = int(np.prod([card_of(p) for p in pa] or [1]))
            k_ = card_of(v)
            rows = []
            if declared == "extra" or k_ != card[v] or any(card_of(p) != card[p] for p in pa):
                rows = [[M.const(Fraction(1, k_)) for _ in range(q)] for _ in range(k_)]
            else:
                rows = [[M.sym(f"old_{v}_{i}_{j}", pos=True) for j in range(q)] for i in range(k_ - 1)]
                last = []
                for j in range(q):
                    l = M.const(1)
                    for i in range(k_ - 1):
                        l = l - rows[i][j]
                    M.assume(l > 0, None)
                    M.mark_pos(l)
                    last.append(l)
                rows.append(last)
            old[v] = (pa, rows)
            oldc.append(TabularCPD(v, k_, M.impl_table(rows), evidence=pa or None, evidence_card=[card_of(p) for p in pa] or None,
                                   state_names={x: states[x] for x in [v] + pa}))
        model.add_cpds(*oldc)
        model.fit_update(df, n_prev_samples=M.impl(nprev))
        cpds = [model.get_cpds(v) for v in nodes]
        cpds2 = None
        for v in nodes:
            def pfun(a, v=v):
                pa, rows = old[v]
                col = 0
                for p in pa:
                    col = col * card_of(p) + states[p].index(a[p])
                return rows[states[v].index(a[v])][col] * nprev
            pseudo[v] = pfun
    # ---- obligations, by state NAME
    for v, cpd in zip(nodes, cpds):
        pa = parents[v]
        if not M.check(cpd.variable == v and set(cpd.variables[1:]) == set(pa), "estimated CPD has the node's graph parents", detail=str(cpd.variables)):
            continue
        for x in [v] + pa:
            M.check(list(cpd.state_names[x]) == list(states[x]), "estimated CPD aligned to the declared state names", detail=f"{x}: {cpd.state_names[x]} vs {states[x]}")
        phi = cpd.to_factor()
        for st in itertools.product(*[states[x] for x in [v] + pa]):
            a = dict(zip([v] + pa, st))
            idx = tuple(phi.name_to_no[x][a[x]] for x in phi.variables)
            got = phi.values[idx]
            num = wsum(a)
            den = wsum({p: a[p] for p in pa})
            kv = card_of(v)
            if est in ("mle", "fit", "dagfit"):
                # w(c) > 0 iff the parent configuration occurs in the support (weights are positive)
                occurs = any(all(label(p, c[nodes.index(p)], dtype) == a[p] for p in pa) for c in sup)
                want = num / den if occurs else M.const(Fraction(1, kv))
                M.eq(got, want, "MLE = weighted count(child, parents) / count(parents), uniform for unseen parent configurations",
                     detail=f"{v} {a}")
            else:
                al = pseudo[v](a)
                tot_al = M.const(0)
                for s in states[v]:
                    tot_al = tot_al + pseudo[v]({**a, v: s})
                M.eq(got, (num + al) / (den + tot_al), "Bayesian estimate = (count + pseudo-count) / (total + total pseudo-count)", detail=f"{est} {v} {a}")
    if cpds2 is not None:
        for c1 in cpds:
            c2 = [c for c in cpds2 if c.variable == c1.variable]
            ok = len(c2) == 1 and list(c2[0].variables) == list(c1.variables) and c2[0].values.shape == c1.values.shape
            M.check(ok, "get_parameters returns one CPD per node with the same layout as estimate_cpd")
            if ok:
                for x, y in zip(c1.values.ravel(), c2[0].values.ravel()):
                    M.eq(x, y, "get_parameters equals estimate_cpd")
    if M.symbolic:
        M.samples.append(f"{desc['model']} {est} support={desc['sup_name']} declared={declared}: theta[s|c] == closed form of the symbolic row weights")


def run_unweighted(desc, M):
    """concrete twin: the unweighted counting path equals the weighted closed form at integer multiplicities"""
    import pandas as pd
    from pgmpy.estimators import BayesianEstimator, MaximumLikelihoodEstimator
    from pgmpy.models import BayesianNetwork
    M.declare([])
    rng = np.random.default_rng(desc["variant"])
    card = dict(A=2 + desc["variant"] % 2, B=2, C=2 + (desc["variant"] // 2) % 2)
    n = int(rng.integers(3, 14))
    data = pd.DataFrame({v: rng.integers(0, card[v], size=n) for v in "ABC"})
    if desc["variant"] % 3 == 0:
        data = data[data["A"] != card["A"] - 1]  # an unseen parent state
        if len(data) == 0:
            return
    if desc["variant"] % 4 == 1:
        for v in "ABC":
            data[v] = data[v].map(lambda s: f"s{s}").astype("category")
    lab = (lambda s: f"s{s}") if desc["variant"] % 4 == 1 else (lambda s: s)
    sn = {v: [lab(s) for s in range(card[v])] for v in "ABC"}
    model = BayesianNetwork([("B", "C"), ("A", "C")] if desc["variant"] % 2 else [("A", "B"), ("B", "C")])
    e = MaximumLikelihoodEstimator(model, data, state_names=sn)
    be = BayesianEstimator(model, data, state_names=sn)
    shuffled = data.sample(frac=1.0, random_state=1)[list(data.columns)[::-1]]
    e2 = MaximumLikelihoodEstimator(model, shuffled, state_names=sn)
    for v in "ABC":
        pa = list(model.get_parents(v))
        cpd = e.estimate_cpd(v)
        cpdk = be.estimate_cpd(v, prior_type="K2")
        cpd2 = e2.estimate_cpd(v)
        phi, phik, phi2 = cpd.to_factor(), cpdk.to_factor(), cpd2.to_factor()
        for st in itertools.product(*[sn[x] for x in [v] + pa]):
            a = dict(zip([v] + pa, st))
            mask = np.ones(len(data), dtype=bool)
            for p in pa:
                mask &= (data[p] == a[p]).values
            den = int(mask.sum())
            num = int((mask & (data[v] == a[v]).values).sum())
            want = num / den if den else 1.0 / card[v]
            got = phi.values[tuple(phi.name_to_no[x][a[x]] for x in phi.variables)]
            M.approx(got, want, 1e-9, "unweighted MLE = count(child, parents)/count(parents), uniform for unseen parent configurations", detail=f"{v} {a}") \
                if want else M.check(abs(float(got)) < 1e-12, "unweighted MLE zero count")
            gk = phik.values[tuple(phik.name_to_no[x][a[x]] for x in phik.variables)]
            M.approx(gk, (num + 1) / (den + card[v]), 1e-9, "unweighted K2 estimate = (count+1)/(total+cardinality)", detail=f"{v} {a}")
            g2 = phi2.values[tuple(phi2.name_to_no[x][a[x]] for x in phi2.variables)]
            M.check(abs(float(g2) - float(got)) < 1e-12, "estimate invariant to row and column order")
    m2 = BayesianNetwork(list(model.edges()))
    m2.fit(data, state_names=sn)
    M.check(m2.check_model() is True, "fitted network validates")

"""C11 - score-based structure search honours its contract (DESIGN.md 5/C11)."""
import itertools

import networkx as nx
import numpy as np

from symx import core

PROPERTY = "C11"
BUDGET = {"quick": 240, "thorough": 1500}
LEVEL = "model_checking"
BOUNDS = {
    "quick": "HillClimbSearch.estimate with a table-driven StructureScore whose local scores are symbolic reals (one per variable and parent SET): "
             "n=3, max_iter in {1,2,3}, start DAGs {empty, one edge, chain}, fixed/black/white lists, max_indegree {None,1}, tabu_length {0,2}, "
             "symbolic epsilon>=0, cache on/off; ExhaustiveSearch n=2 all-symbolic and n=3 with 4 symbolic scores; Chow-Liu tree construction on "
             "symbolic positive weight matrices n<=4, every root",
    "thorough": "HillClimb n=3 max_iter<=4 and n=4 max_iter<=2, ExhaustiveSearch n=3 with 6 symbolic scores, Chow-Liu n=5",
}
ASSUMPTIONS = ["every data set induces some local-score table; the search contract is checked for ALL tables (a superset of those induced by data)",
               "counterexamples are replayed through the same public entry point (custom scoring object)",
               "Chow-Liu: strictly positive pairwise weights (stated in the property); mutual-information computation itself is outside"]


class _NXProxy:
    """networkx proxy for pgmpy.estimators.TreeSearch: from_pandas_adjacency refuses object-dtype frames; model = one edge per
    non-zero off-diagonal entry carrying it as 'weight' (what the real function does for numeric frames)."""

    def __getattr__(self, k):
        return getattr(nx, k)

    @staticmethod
    def from_pandas_adjacency(df, create_using=None):
        if not any(isinstance(x, core.SymReal) for x in df.values.ravel()):
            return nx.from_pandas_adjacency(df, create_using=create_using)
        from symx import stubs
        stubs._hit("nx.from_pandas_adjacency(object)")
        g = (create_using or nx.Graph)()
        cols = list(df.columns)
        g.add_nodes_from(cols)
        for i, u in enumerate(cols):
            for j, v in enumerate(cols):
                if j > i:
                    w = df.values[i][j]
                    if isinstance(w, core.SymReal) or w != 0:
                        g.add_edge(u, v, weight=w)
        return g


def install_stubs(desc):
    if desc["mode"] == "cl":
        from symx import stubs
        stubs.patch_attr("pgmpy.estimators.TreeSearch", "nx", _NXProxy())
        import math
        # networkx's Kruskal calls math.isnan(weight); a SymReal is never NaN
        stubs.patch_attr("networkx.algorithms.tree.mst", "isnan", lambda x: False if isinstance(x, core.SymReal) else math.isnan(x))


def scenarios(tier, seed):
    out = []
    k = 0
    names3 = ["a", "b", "c"]
    starts = {"empty": [], "one": [("a", "b")], "chain": [("a", "b"), ("b", "c")], "collider": [("a", "c"), ("b", "c")]}
    opts = [
        dict(),
        dict(fixed=[("a", "b")]),
        dict(black=[("a", "b"), ("b", "a")]),
        dict(white=[("a", "b"), ("b", "c"), ("c", "b")]),
        dict(max_indegree=1),
        dict(tabu_length=2),
        dict(fixed=[("c", "a")], black=[("b", "c")], max_indegree=1),
        dict(white=[("a", "c"), ("c", "a"), ("b", "c")], tabu_length=2),
    ]
    for mi in ([1, 2, 3] if tier == "quick" else [1, 2, 3, 4]):
        for sname, start in starts.items():
            for oi, o in enumerate(opts):
                k += 1
                if mi >= 3 and (oi not in (0, 4) or sname not in ("empty", "one")):
                    continue
                if tier == "quick" and mi == 2 and (k % 3):
                    continue
                out.append(dict(family=f"hc/n3/iter{mi}", mode="hc", names=names3, start=start, max_iter=mi, cache=(k % 2 == 0),
                                hashseed=k % 2, budget_s=120, max_paths=6000, cost=10 ** mi, **o))
    if tier == "thorough":
        names4 = ["a", "b", "c", "d"]
        for mi in (1, 2):
            for o in (dict(), dict(max_indegree=1), dict(fixed=[("a", "b")], black=[("c", "d")])):
                out.append(dict(family=f"hc/n4/iter{mi}", mode="hc", names=names4, start=[], max_iter=mi, cache=True, hashseed=0, budget_s=900,
                                max_paths=30000, cost=10 ** (mi + 2), **o))
    # targeted partially-symbolic tables (other local scores fixed to 0): undo-moves with the tabu list disabled, and edge reversals
    # next to long directed detours (needs 4 variables)
    for mi in (3, 4):
        out.append(dict(family="hc/n3/undo", mode="hc", names=names3, start=[], max_iter=mi, cache=False, hashseed=0, budget_s=100, max_paths=4000,
                        sym=["s_b_", "s_b_a", "s_b_c", "s_b_ac"], cost=300))
    names4 = ["a", "b", "c", "d"]
    # undoing an earlier addition needs three parents: +a->b, +c->b, +d->b, then -a->b when S_b(cd) > S_b(acd)
    out.append(dict(family="hc/n4/undo", mode="hc", names=names4, start=[], max_iter=5, cache=False, hashseed=1, budget_s=150, max_paths=20000,
                    sym=["s_b_", "s_b_a", "s_b_c", "s_b_d", "s_b_ac", "s_b_ad", "s_b_cd", "s_b_acd"], white=[("a", "b"), ("c", "b"), ("d", "b")], cost=2000))
    for start, sym in [([("a", "b"), ("b", "c"), ("c", "d"), ("a", "d")], ["s_a_", "s_a_d", "s_d_c", "s_d_ac"]),
                       ([("a", "b"), ("b", "c"), ("c", "d"), ("a", "d")], ["s_a_", "s_a_d", "s_d_c", "s_d_ac", "s_c_b", "s_c_bd", "s_d_a"]),
                       ([("a", "b"), ("b", "c"), ("a", "c"), ("c", "d")], ["s_a_", "s_a_c", "s_c_b", "s_c_ab", "s_d_c", "s_d_"])]:
        for mi in (1, 2):
            out.append(dict(family="hc/n4/flip", mode="hc", names=names4, start=start, max_iter=mi, cache=True, hashseed=mi % 2, budget_s=100, max_paths=4000,
                            sym=sym, cost=300))
    # exhaustive
    out.append(dict(family="exhaustive/n2", mode="es", names=["a", "b"], nsym=None, hashseed=0, budget_s=60))
    for which in range(3 if tier == "quick" else 8):
        out.append(dict(family="exhaustive/n3", mode="es", names=names3, nsym=4 if tier == "quick" else 6, which=which, hashseed=which % 2,
                        budget_s=100, max_paths=3000, cost=500))
    # chow-liu
    for n in ([3, 4] if tier == "quick" else [3, 4, 5]):
        cols = ["a", "b", "c", "d", "e"][:n]
        for root in cols:
            if tier == "quick" and n == 4 and root != "b":
                continue
            out.append(dict(family=f"chowliu/n{n}", mode="cl", names=cols, root=root, hashseed=0, budget_s=100 if tier == "quick" else 900,
                            max_paths=4000 if tier == "quick" else 200000, cost=20 ** (n - 1)))
    # the public entry point TreeSearch(data, root_node).estimate(...) with the weight computation (sklearn) replaced by the symbolic matrix:
    # every root including falsy column labels (0, ""), the automatically chosen root, and TAN with every class node
    for cols in ([2, 0, 1], ["b", "", "a"], ["x", "y", "z"], [1, 3, 0, 2]):
        n = len(cols)
        if n == 4 and tier == "quick":
            roots = [0]
        else:
            roots = list(cols) + [None]
        for root in roots:
            out.append(dict(family=f"treesearch/estimate/n{n}", mode="cl", via="estimate", names=cols, root=root, hashseed=0,
                            budget_s=100 if tier == "quick" else 600, max_paths=4000 if tier == "quick" else 100000, cost=20 ** (n - 1)))
    for cols in ([2, 0, 1, 3], ["c", "", "a", "b"]):
        for cls in cols[:2] if tier == "quick" else cols:
            # (an automatically chosen root may coincide with the class node, which TAN rejects by design: explicit roots only)
            for root in [c for c in cols if c != cls][:2 if tier == "quick" else 3]:
                out.append(dict(family="treesearch/tan/n4", mode="cl", via="tan", names=cols, root=root, class_node=cls, hashseed=0, budget_s=100,
                                max_paths=4000, cost=500))
    return out


def score_names(names):
    out = []
    for v in names:
        others = [x for x in names if x != v]
        for r in range(len(others) + 1):
            for ps in itertools.combinations(others, r):
                out.append(f"s_{v}_{''.join(ps)}")
    return out


def run(desc, M):
    return {"hc": run_hc, "es": run_es, "cl": run_cl}[desc["mode"]](desc, M)


def make_score(M, names, S, data):
    from pgmpy.estimators import StructureScore

    class TableScore(StructureScore):
        calls = []

        def local_score(self, variable, parents):
            TableScore.calls.append((variable, tuple(parents)))
            return M.impl(S[(variable, frozenset(parents))])
    return TableScore(data)


def total(S, names, edges):
    t = 0
    for v in names:
        t = t + S[(v, frozenset(p for p, c in edges if c == v))]
    return t


def run_hc(desc, M):
    import pandas as pd
    from pgmpy.base import DAG
    from pgmpy.estimators import HillClimbSearch
    names = desc["names"]
    symset = desc.get("sym")
    M.declare((score_names(names) if symset is None else list(symset)) + ["eps"])
    S = {}
    for v in names:
        others = [x for x in names if x != v]
        for r in range(len(others) + 1):
            for ps in itertools.combinations(others, r):
                nm_ = f"s_{v}_{''.join(ps)}"
                S[(v, frozenset(ps))] = M.sym(nm_) if (symset is None or nm_ in symset) else M.const(0)
    eps = M.sym("eps", nonneg=True)
    data = pd.DataFrame([[0] * len(names), [1] * len(names)], columns=names)
    score = make_score(M, names, S, data)
    est = HillClimbSearch(data, use_cache=desc["cache"])
    start = DAG()
    start.add_nodes_from(names)
    start.add_edges_from(desc["start"])
    start_edges = set(start.edges())
    fixed = [tuple(e) for e in desc.get("fixed", [])]
    black = [tuple(e) for e in desc.get("black", [])] if "black" in desc else None
    white = [tuple(e) for e in desc.get("white", [])] if "white" in desc else None
    mind = desc.get("max_indegree")
    tabu = desc.get("tabu_length", 0)
    calls = [0]
    last_seen = [None]
    orig = est._legal_operations

    def counting(model, *a, **kw):
        calls[0] += 1
        last_seen[0] = set(model.edges())
        return orig(model, *a, **kw)
    est._legal_operations = counting
    try:
        res = est.estimate(scoring_method=score, start_dag=start, fixed_edges=fixed, tabu_length=tabu, max_indegree=mind, black_list=black,
                           white_list=white, epsilon=M.impl(eps), max_iter=desc["max_iter"], show_progress=False)
    except ValueError as e:
        # only legitimate when fixed edges make the start graph cyclic
        g = nx.DiGraph(list(start_edges) + fixed)
        M.check(not nx.is_directed_acyclic_graph(g), "estimate raised on a valid option set", detail=str(e))
        return
    edges = set(res.edges())
    tag = f"start={sorted(start_edges)} result={sorted(edges)}"
    M.check(nx.is_directed_acyclic_graph(res), "result is acyclic", detail=tag)
    M.check(set(res.nodes()) == set(names), "result is over exactly the data's variables", detail=str(res.nodes()))
    M.check(set(fixed) <= edges, "result contains all fixed edges", detail=tag)
    if black:
        M.check(not (set(black) & (edges - start_edges - set(fixed))), "no black-listed edge is added", detail=tag)
    if white is not None:
        M.check((edges - start_edges - set(fixed)) <= set(white), "only white-listed edges are added", detail=tag)
    if mind is not None:
        for v in names:
            pa_new = {p for p, c in edges if c == v}
            pa_old = {p for p, c in (start_edges | set(fixed)) if c == v}
            if pa_new != pa_old and not (pa_new < pa_old):
                M.check(len(pa_new) <= mind, "in-degree bound respected", detail=f"{v}: {pa_new}; {tag}")
    base_edges = start_edges | set(fixed)
    M.le(total(S, names, base_edges), total(S, names, edges), "score is not lower than the start graph's", detail=tag)
    if M.symbolic:
        M.samples.append(f"hill-climb {tag} after {calls[0]} iterations: score(result) >= score(start); no legal move improves by eps")
    # local optimality when the loop ended by the epsilon test (not by max_iter) and tabu is disabled
    # the loop ended by the epsilon/no-operation test iff the graph did not change after the last ranking of operations
    if tabu == 0 and calls[0] >= 1 and last_seen[0] == edges:
        G = nx.DiGraph()
        G.add_nodes_from(names)
        G.add_edges_from(edges)
        wl = set(white) if white is not None else {(u, v) for u in names for v in names}
        bl = set(black or [])
        lim = mind if mind is not None else 10 ** 9

        def pa(v, es=edges):
            return frozenset(p for p, c in es if c == v)
        for X, Y in itertools.permutations(names, 2):
            if (X, Y) not in edges and (Y, X) not in edges:
                if not nx.has_path(G, Y, X) and (X, Y) not in bl and (X, Y) in wl and len(pa(Y)) + 1 <= lim:
                    d = S[(Y, pa(Y) | {X})] - S[(Y, pa(Y))]
                    M.lt(d, eps, "no legal edge addition improves the score by epsilon or more", detail=f"+{(X, Y)}; {tag}")
            if (X, Y) in edges:
                if (X, Y) not in fixed:
                    d = S[(Y, pa(Y) - {X})] - S[(Y, pa(Y))]
                    M.lt(d, eps, "no legal edge deletion improves the score by epsilon or more", detail=f"-{(X, Y)}; {tag}")
                    G2 = G.copy()
                    G2.remove_edge(X, Y)
                    if not nx.has_path(G2, X, Y) and (Y, X) not in bl and (Y, X) in wl and len(pa(X)) + 1 <= lim:
                        d = S[(X, pa(X) | {Y})] + S[(Y, pa(Y) - {X})] - S[(X, pa(X))] - S[(Y, pa(Y))]
                        M.lt(d, eps, "no legal edge reversal improves the score by epsilon or more", detail=f"flip{(X, Y)}; {tag}")


def all_dags(names):
    pairs = list(itertools.combinations(names, 2))
    out = []
    for st in itertools.product((0, 1, 2), repeat=len(pairs)):
        es = [(a, b) if s == 1 else (b, a) for (a, b), s in zip(pairs, st) if s]
        g = nx.DiGraph(es)
        g.add_nodes_from(names)
        if nx.is_directed_acyclic_graph(g):
            out.append(es)
    return out


def run_es(desc, M):
    import pandas as pd
    import random
    from pgmpy.estimators import ExhaustiveSearch
    names = desc["names"]
    allnames = score_names(names)
    rnd = random.Random(desc.get("which", 0))
    symset = set(allnames) if desc["nsym"] is None else set(rnd.sample(allnames, desc["nsym"]))
    M.declare(sorted(symset))
    S = {}
    for v in names:
        others = [x for x in names if x != v]
        for r in range(len(others) + 1):
            for ps in itertools.combinations(others, r):
                nm = f"s_{v}_{''.join(ps)}"
                S[(v, frozenset(ps))] = M.sym(nm) if nm in symset else M.const(rnd.randint(-20, 20))
    data = pd.DataFrame([[0] * len(names), [1] * len(names)], columns=names)
    score = make_score(M, names, S, data)
    for use_cache in (True, False):
        est = ExhaustiveSearch(data, scoring_method=score, use_cache=use_cache)
        res = est.estimate()
        edges = set(res.edges())
        M.check(nx.is_directed_acyclic_graph(res) and set(res.nodes()) == set(names), "exhaustive: result is a DAG over the variables")
        best = total(S, names, edges)
        for es in all_dags(names):
            M.le(total(S, names, es), best, "exhaustive search returns a DAG of globally maximal score", detail=f"result {sorted(edges)} beaten by {es}")
    if len(names) == 2:
        sc = ExhaustiveSearch(data, scoring_method=score, use_cache=True).all_scores()
        M.check(len(sc) == len(all_dags(names)), "all_scores lists every DAG")
        for (s1, g1), (s2, g2) in zip(sc, sc[1:]):
            M.le(s1, s2, "all_scores is ordered by score")
        for s_, g in sc:
            M.eq(s_, total(S, names, set(g.edges())), "all_scores value = sum of local scores")


def run_cl(desc, M):
    from pgmpy.estimators import TreeSearch
    cols = desc["names"]
    n = len(cols)
    pairs = list(itertools.combinations(range(n), 2))
    M.declare([f"w_{i}_{j}" for i, j in pairs])
    W = {}
    for i, j in pairs:
        W[(i, j)] = M.sym(f"w_{i}_{j}", pos=True)
    mat = np.empty((n, n), dtype=object if M.symbolic else float)
    for i in range(n):
        for j in range(n):
            mat[i, j] = 0 if i == j else M.impl(W[(min(i, j), max(i, j))])
    via = desc.get("via")
    root = desc["root"]
    cls = desc.get("class_node")
    if via is None:
        dag = TreeSearch._create_tree_and_dag(mat, cols, root)
    else:
        import pandas as pd
        data = pd.DataFrame([[0] * n, [1] * n], columns=cols)
        ts = TreeSearch(data, root_node=root, n_jobs=1)
        saved = TreeSearch.__dict__["_get_weights"], TreeSearch.__dict__["_get_conditional_weights"]
        TreeSearch._get_weights = staticmethod(lambda *a, **k: mat.copy())
        TreeSearch._get_conditional_weights = staticmethod(lambda *a, **k: mat.copy())
        try:
            dag = ts.estimate(estimator_type="chow-liu" if via == "estimate" else "tan", class_node=cls, show_progress=False)
        finally:
            TreeSearch._get_weights, TreeSearch._get_conditional_weights = saved
        if root is None:
            # automatically chosen root: a column with the largest total weight (over the full matrix, as documented)
            root = ts.root_node
            M.check(any(root == c for c in cols), "tree search: the chosen root is a data column", detail=repr(root))
            tot = [sum((mat[i, j] for j in range(n) if j != i), M.const(0) if M.symbolic else 0.0) for i in range(n)]
            for j in range(n):
                M.le(tot[j], tot[cols.index(root)], "tree search: the automatically chosen root has the largest total edge weight", detail=f"root {root!r}")
    M.check(set(dag.nodes()) == set(cols), "chow-liu: all columns present", detail=str(list(dag.nodes())))
    tree_cols = [c for c in cols if via != "tan" or c != cls]
    all_edges = [(cols.index(u), cols.index(v)) for u, v in dag.edges()]
    if via == "tan":
        ci = cols.index(cls)
        M.check({(a, b) for a, b in all_edges if a == ci} == {(ci, cols.index(c)) for c in tree_cols} and not any(b == ci for a, b in all_edges),
                "tan: the class node is a parent of every feature and has no parent", detail=str(all_edges))
        edges = [(a, b) for a, b in all_edges if a != ci]
    else:
        edges = all_edges
    tidx = [cols.index(c) for c in tree_cols]
    und = nx.Graph(edges)
    und.add_nodes_from(tidx)
    ok = M.check(len(edges) == len(tidx) - 1 and nx.is_connected(und), "chow-liu: result is a spanning tree", detail=str(edges))
    if not ok:
        return
    r = cols.index(root)
    dist = nx.single_source_shortest_path_length(und, r)
    M.check(all(dist[u] + 1 == dist[v] for u, v in edges), "chow-liu: every edge points away from the root", detail=f"root {root!r} edges {[(cols[a], cols[b]) for a, b in edges]}")
    wt = lambda es: sum((W[(min(a, b), max(a, b))] for a, b in es), M.const(0))  # noqa
    best = wt(edges)
    for tree in spanning_trees(len(tidx)):
        tree = [(tidx[a], tidx[b]) for a, b in tree]
        M.le(wt(tree), best, "chow-liu: maximum-weight spanning tree", detail=f"{edges} vs {tree}")


def spanning_trees(n):
    pairs = list(itertools.combinations(range(n), 2))
    out = []
    for es in itertools.combinations(pairs, n - 1):
        g = nx.Graph(list(es))
        g.add_nodes_from(range(n))
        if nx.is_connected(g):
            out.append(list(es))
    return out

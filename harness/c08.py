"""C08 - d-separation answers match the path-based definition (DESIGN.md 5/C08)."""
import itertools

import z3

from symx import core, oracles as O

PROPERTY = "C08"
LEVEL = "model_checking"
BOUNDS = {
    "quick": "lemma: Bayes-ball == trail definition == moralised-ancestral criterion for ALL DAGs n<=4 (solver, edges symbolic); "
             "lazy mode: active_trail_nodes/is_dconnected/_get_ancestors_of/get_markov_blanket on a DAG whose edges are symbolic, n<=4, every "
             "start/observed/latent choice; eager mode: every DAG on <=4 nodes in a fixed topological order x 2 labelings for "
             "get_independencies/local_independencies/minimal_dseparator/get_ancestral_graph/moralize/BayesianNetwork+NaiveBayes overrides",
    "thorough": "lemma n<=5, lazy n<=4 all label permutations, eager n<=5 sample",
}
ASSUMPTIONS = ["graphs are DAGs over a fixed topological order (every DAG up to relabelling); public labels permuted per scenario",
               "in eager mode the graph dimension is solver-free enumeration (DESIGN.md 3.5); the oracle formulas are evaluated at the concrete edges"]

LABELS = {
    "str": lambda i: "ABCDE"[i],
    "rev": lambda i: "EDCBA"[i],
    "int": lambda i: [3, 1, 4, 0, 2][i],
    "mixed": lambda i: ["x", 0, ("t", 1), "y", 7][i],
}


def scenarios(tier, seed):
    out = []
    k = 0
    for n in ([3, 4] if tier == "quick" else [3, 4, 5]):
        out.append(dict(family="lemma/dsep-oracles-equivalent", mode="lemma", n=n, budget_s=150, hashseed=0, validate=False))
    # lazy: one scenario per (n, start, observed set, latent set, labels)
    for n in (3, 4):
        for x in range(n):
            others = [v for v in range(n) if v != x]
            for r in range(len(others) + 1):
                for Z in itertools.combinations(others, r):
                    k += 1
                    lat_opts = [()] + [(v,) for v in others if v not in Z][:1]
                    for lat in lat_opts:
                        for incl in ((False, True) if lat else (False,)):
                            labs = list(LABELS)[k % 4] if tier == "quick" else None
                            for lab in ([labs] if labs else list(LABELS)):
                                out.append(dict(family=f"lazy/active_trail/n{n}", mode="lazy", n=n, x=x, Z=list(Z), latents=list(lat),
                                                include_latents=incl, labels=lab, obs_type=["list", "set", "tuple", "single"][(k // 4 + k) % 4],
                                                hashseed=k % 2, budget_s=60, max_paths=4000))
    for n in (3, 4):
        for x in range(n):
            out.append(dict(family=f"lazy/markov_blanket/n{n}", mode="lazy_mb", n=n, x=x, labels=list(LABELS)[x % 4], hashseed=x % 2))
    # eager: all DAGs
    ns = [2, 3, 4]
    for n in ns:
        pairs = [(u, v) for u in range(n) for v in range(u + 1, n)]
        for mask in range(1 << len(pairs)):
            edges = [pairs[i] for i in range(len(pairs)) if mask >> i & 1]
            for lab in (["str", "int"] if tier == "quick" else list(LABELS)):
                k += 1
                out.append(dict(family=f"eager/n{n}", mode="eager", n=n, edges=edges, labels=lab, hashseed=k % 2,
                                cls=["DAG", "BayesianNetwork"][k % 2]))
    if tier == "thorough":
        import random
        rnd = random.Random(seed)
        pairs = [(u, v) for u in range(5) for v in range(u + 1, 5)]
        for _ in range(150):
            edges = [p for p in pairs if rnd.random() < 0.45]
            out.append(dict(family="eager/n5", mode="eager", n=5, edges=edges, labels="str", hashseed=0, cls="DAG", budget_s=120))
    for nfeat in (1, 2, 3):
        out.append(dict(family="eager/naive_bayes", mode="nb", nfeat=nfeat, hashseed=0))
    return out


def make_lazy_dag(n, E, lab, latents):
    """pgmpy DAG whose networkx accessors answer from edge Booleans (SymBool forks on first inspection)."""
    from pgmpy.base import DAG
    idx = {lab(i): i for i in range(n)}

    class LazyDAG(DAG):
        def predecessors(self, v):
            j = idx[v]
            return iter([lab(i) for i in range(j) if bool(E[(i, j)])])

        def successors(self, v):
            i = idx[v]
            return iter([lab(j) for j in range(i + 1, n) if bool(E[(i, j)])])

        neighbors = successors

    g = LazyDAG()
    g.add_nodes_from([lab(i) for i in range(n)])
    g.latents = {lab(i) for i in latents}
    return g


def run(desc, M):
    mode = desc["mode"]
    if mode == "lemma":
        return run_lemma(desc, M)
    if mode in ("lazy", "lazy_mb"):
        return run_lazy(desc, M)
    if mode == "nb":
        return run_nb(desc, M)
    return run_eager(desc, M)


def run_lemma(desc, M):
    """solver lemma: the three encodings of d-connection agree for ALL DAGs on n nodes and all (x, y, Z)"""
    M.declare([])
    if not M.symbolic:
        return
    n = desc["n"]
    E = O.sym_edges(n)
    for x in range(n):
        others = [v for v in range(n) if v != x]
        for r in range(len(others) + 1):
            for Z in itertools.combinations(others, r):
                bb = O.dconnected_bayesball(E, n, x, set(Z))
                diffs = []
                for y in range(n):
                    if y == x or y in Z:
                        continue
                    d = O.dconnected_def(E, n, x, y, set(Z))
                    m = O.dconnected_moral(E, n, x, y, set(Z))
                    diffs.append(z3.And(bb[y] == d, d == m))
                if diffs:
                    M.check(core.SymBool(z3.And(*diffs)), "oracle lemma: Bayes-ball == trail definition == moral criterion")
    M.samples.append(f"forall DAGs on {n} nodes, forall x,Z,y: bayesball(x,y|Z) == trails(x,y|Z) == moral(x,y|Z)")


def run_lazy(desc, M):
    n = desc["n"]
    lab = LABELS[desc["labels"]]
    M.declare([])
    Eb = {(u, v): M.bool(f"e_{u}_{v}") for u in range(n) for v in range(u + 1, n)}
    Ez = {k: (core.zbool(b) if M.symbolic else bool(b)) for k, b in Eb.items()}
    x = desc["x"]
    if desc["mode"] == "lazy_mb":
        g = make_lazy_dag(n, Eb, lab, [])
        mb = g.get_markov_blanket(lab(x))
        M.check(len(mb) == len(set(mb)), "markov blanket has no duplicates")
        for y in range(n):
            if y == x:
                M.check(lab(y) not in mb, "markov blanket excludes the node itself")
                continue
            spouse = O._or([z3.And(O.edge(Ez, x, c), O.edge(Ez, y, c)) for c in range(n) if c not in (x, y)])
            want = z3.Or(O.adj(Ez, x, y), spouse)
            got = lab(y) in mb
            chk_formula(M, want, got, "markov blanket = parents + children + co-parents")
        pa = g.get_parents(lab(x))
        ch = g.get_children(lab(x))
        for y in range(n):
            if y != x:
                chk_formula(M, O.edge(Ez, y, x), lab(y) in pa, "get_parents")
                chk_formula(M, O.edge(Ez, x, y), lab(y) in ch, "get_children")
        return
    Z = desc["Z"]
    lat = desc["latents"]
    g = make_lazy_dag(n, Eb, lab, lat)
    obs = [lab(z) for z in Z]
    ot = desc["obs_type"]
    if ot == "set":
        obs_arg = set(obs)
    elif ot == "tuple":
        obs_arg = tuple(obs)
    elif ot == "single" and len(obs) == 1 and not isinstance(obs[0], tuple):
        obs_arg = obs[0]
    else:
        obs_arg = list(obs)
    if not obs:
        obs_arg = None if ot != "list" else []
    res = g.active_trail_nodes(lab(x), observed=obs_arg, include_latents=desc["include_latents"])
    M.check(set(res.keys()) == {lab(x)}, "active_trail_nodes keys")
    got = res[lab(x)]
    if M.symbolic:
        M.samples.append(f"active_trail_nodes({lab(x)!r} | {obs}) = {got} on the graphs satisfying the path condition")
    for y in range(n):
        if y in lat and not desc["include_latents"]:
            M.check(lab(y) not in got, "latent nodes filtered from the active trail")
            continue
        if y in Z:
            M.check(lab(y) not in got, "observed nodes are not active")
            continue
        want = O.dconnected_def(Ez, n, x, y, set(Z))
        chk_formula(M, want, lab(y) in got, "y in active_trail_nodes(x|Z) iff x,y d-connected given Z")
        if y != x and not lat:
            chk_formula(M, want, g.is_dconnected(lab(x), lab(y), observed=obs), "is_dconnected matches the definition")
    anc = g._get_ancestors_of(obs)
    D = O.descendants_or_self(Ez, n)
    for v in range(n):
        chk_formula(M, O._or([D[v][z] for z in Z]), lab(v) in anc, "_get_ancestors_of")


def chk_formula(M, want, got, label):
    """got: Python bool; want: z3 formula over the edge Booleans (or a bool).  Under the path condition the formula
    must equal got for EVERY completion of the edges the code never inspected."""
    if M.symbolic:
        w = want if not isinstance(want, bool) else z3.BoolVal(want)
        M.check(core.SymBool(w == z3.BoolVal(bool(got))), label)
    else:
        M.check(O.eval_bool(want) == bool(got), label)


def dconn_py(n, E, x, y, Z):
    return O.eval_bool(O.dconnected_def(E, n, x, y, set(Z)))


def run_eager(desc, M):
    from pgmpy.base import DAG
    from pgmpy.models import BayesianNetwork
    from pgmpy.independencies import IndependenceAssertion
    M.declare([])
    n = desc["n"]
    lab = LABELS[desc["labels"]]
    inv = {lab(i): i for i in range(n)}
    E = {(u, v): ((u, v) in [tuple(e) for e in desc["edges"]]) for u in range(n) for v in range(u + 1, n)}
    cls = DAG if desc["cls"] == "DAG" else BayesianNetwork
    g = cls()
    g.add_nodes_from([lab(i) for i in range(n)])
    g.add_edges_from([(lab(u), lab(v)) for u, v in desc["edges"]])
    dc = {}
    for x in range(n):
        others = [v for v in range(n) if v != x]
        for r in range(len(others) + 1):
            for Z in itertools.combinations(others, r):
                for y in others:
                    if y not in Z:
                        dc[(x, y, Z)] = dconn_py(n, E, x, y, Z)
    # symmetric sanity of the oracle itself
    for (x, y, Z), v in dc.items():
        M.check(dc[(y, x, Z)] == v, "oracle symmetric")
    # active trails / is_dconnected (eager twin of the lazy check, all observed-argument types)
    for x in range(n):
        others = [v for v in range(n) if v != x]
        for r in range(len(others) + 1):
            for Z in itertools.combinations(others, r):
                got = g.active_trail_nodes(lab(x), observed=[lab(z) for z in Z])[lab(x)]
                want = {lab(x)} | {lab(y) for y in others if y not in Z and dc[(x, y, Z)]}
                M.check(got == want, "active_trail_nodes equals the d-connected set", detail=f"x={lab(x)} Z={Z} got={got} want={want}")
                # the same question with the observed set given as set / tuple / single node (a tuple-named node cannot be given bare: it reads as a list)
                forms = [("set", {lab(z) for z in Z}), ("tuple", tuple(lab(z) for z in Z))]
                if len(Z) == 1 and not isinstance(lab(Z[0]), tuple):
                    forms.append(("single node", lab(Z[0])))
                for fname, form in forms:
                    got2 = g.active_trail_nodes(lab(x), observed=form)[lab(x)]
                    M.check(got2 == want, f"active_trail_nodes with observed given as {fname} equals the d-connected set",
                            detail=f"x={lab(x)!r} observed={form!r} got={got2} want={want}")
                    for y in others:
                        if y not in Z:
                            M.check(g.is_dconnected(lab(x), lab(y), observed=form) == dc[(x, y, Z)], f"is_dconnected with observed given as {fname} matches the definition",
                                    detail=f"{lab(x)!r},{lab(y)!r} | {form!r}")
    # multi-variable form
    res = g.active_trail_nodes([lab(i) for i in range(n)])
    M.check(set(res) == {lab(i) for i in range(n)}, "active_trail_nodes(list) keys")
    # get_independencies: every asserted triple true; every true triple entailed
    ind = g.get_independencies()
    asserted = set()
    for a in ind.get_assertions():
        for e1 in a.event1:
            for e2 in a.event2:
                Zs = tuple(sorted(inv[z] for z in a.event3))
                M.check(not dc[(inv[e1], inv[e2], Zs)], "get_independencies asserts only true d-separations", detail=str(a))
                asserted.add((inv[e1], inv[e2], Zs))
                asserted.add((inv[e2], inv[e1], Zs))
    for (x, y, Z), v in dc.items():
        if not v:
            M.check((x, y, Z) in asserted, "get_independencies lists every true d-separation (pairwise)", detail=f"{lab(x)} _|_ {lab(y)} | {[lab(z) for z in Z]}")
    # local independencies
    D = [[O.eval_bool(O.descendants_or_self(E, n)[a][b]) for b in range(n)] for a in range(n)]
    for v in range(n):
        li = g.local_independencies([lab(v)])  # a bare tuple-named node would be read as a list of nodes
        pa = {u for u in range(v) if E[(u, v)]}
        nd = {u for u in range(n) if u != v and not D[v][u]} - pa
        asr = li.get_assertions()
        if nd:
            ok = len(asr) == 1 and set(asr[0].event1) == {lab(v)} and set(asr[0].event2) == {lab(u) for u in nd} and set(asr[0].event3) == {lab(u) for u in pa}
            M.check(ok, "local_independencies = (v _|_ non-descendants minus parents | parents)", detail=f"{lab(v)}: {asr}")
        else:
            M.check(len(asr) == 0, "local_independencies empty when there is nothing to assert", detail=str(asr))
    if n >= 2:
        def li_want(v):
            pa = {u for u in range(v) if E[(u, v)]}
            nd = {u for u in range(n) if u != v and not D[v][u]} - pa
            return (frozenset([lab(v)]), frozenset(lab(u) for u in nd), frozenset(lab(u) for u in pa)) if nd else None
        orders = [list(range(n)), list(range(n))[::-1], list(range(n))[1:] + [0]] + ([[n - 1, 0]] if n >= 3 else [])
        for order in orders:
            for form in (list, tuple):
                if form is tuple and any(isinstance(lab(v), tuple) for v in order):
                    continue
                li = g.local_independencies(form(lab(v) for v in order))
                got = {(frozenset(a.event1), frozenset(a.event2), frozenset(a.event3)) for a in li.get_assertions()}
                want = {li_want(v) for v in order} - {None}
                M.check(got == want, "local_independencies of several variables = the local Markov statement of each, whatever the order they are listed in",
                        detail=f"{form.__name__} {[lab(v) for v in order]}: got {sorted(map(str, got))} want {sorted(map(str, want))}")
    # markov blanket, moral graph, ancestral graph
    for v in range(n):
        want = set()
        for u in range(n):
            if u != v and (E[(min(u, v), max(u, v))] or any(c > max(u, v) and E[(u, c)] and E[(v, c)] for c in range(n))):
                want.add(lab(u))
        M.check(set(g.get_markov_blanket(lab(v))) == want, "get_markov_blanket", detail=f"{lab(v)}: {g.get_markov_blanket(lab(v))} vs {want}")
    mor = g.moralize()
    want = set()
    for u in range(n):
        for v in range(u + 1, n):
            if E[(u, v)] or any(c > v and E[(u, c)] and E[(v, c)] for c in range(n)):
                want.add(frozenset((lab(u), lab(v))))
    M.check({frozenset(e) for e in mor.edges()} == want and set(mor.nodes()) == set(g.nodes()), "moralize = skeleton + married parents")
    for r in range(1, n + 1):
        for S in itertools.combinations(range(n), r):
            ag = g.get_ancestral_graph([lab(s) for s in S])
            keep = {v for v in range(n) if any(D[v][s] for s in S)}
            M.check(set(ag.nodes()) == {lab(v) for v in keep}, "get_ancestral_graph nodes = ancestors-or-self", detail=f"{S}: {ag.nodes()}")
            M.check(set(ag.edges()) == {(lab(u), lab(v)) for (u, v), p in E.items() if p and u in keep and v in keep}, "get_ancestral_graph edges")
    # minimal d-separator
    for x in range(n):
        for y in range(n):
            if x == y:
                continue
            adjacent = E[(min(x, y), max(x, y))]
            try:
                sep = g.minimal_dseparator(lab(x), lab(y))
            except ValueError:
                M.check(adjacent, "minimal_dseparator raises only for adjacent nodes")
                continue
            M.check(not adjacent, "minimal_dseparator must refuse adjacent nodes")
            if adjacent:
                continue
            if not M.check(sep is not None, "a separator exists for every non-adjacent pair (no latents)", detail=f"{lab(x)},{lab(y)}"):
                continue
            Zs = tuple(sorted(inv[s] for s in sep))
            M.check(x not in Zs and y not in Zs, "separator excludes the endpoints")
            M.check(not dc[(x, y, Zs)], "returned set d-separates", detail=f"{lab(x)},{lab(y)} | {sep}")
            for s in Zs:
                Z2 = tuple(z for z in Zs if z != s)
                M.check(dc[(x, y, Z2)], "separator is minimal: removing any member reconnects", detail=f"{lab(x)},{lab(y)} | {sep} minus {lab(s)}")
    # latent variant: one latent node, include_latents both ways
    if n >= 3:
        latent_sets = [(l,) for l in range(n)] + (list(itertools.combinations(range(n), 2)) if n >= 4 else [])
        for lset in latent_sets:
            l = lset[0]
            g2 = cls()
            g2.add_nodes_from([lab(i) for i in range(n)])
            g2.add_edges_from([(lab(u), lab(v)) for u, v in desc["edges"]])
            g2.latents = {lab(x) for x in lset}
            if len(lset) > 1:
                # stacked / multiple latents: only the separator clauses
                for x in range(n):
                    for y in range(n):
                        if x == y or x in lset or y in lset or E[(min(x, y), max(x, y))]:
                            continue
                        sep = g2.minimal_dseparator(lab(x), lab(y))
                        if sep is None:
                            continue
                        Zs = tuple(sorted(inv[s] for s in sep))
                        M.check(not (set(Zs) & set(lset)), "separator contains no latent node", detail=f"{lab(x)},{lab(y)} | {sep} latents {[lab(q) for q in lset]}")
                        M.check(not dc[(x, y, Zs)], "returned set d-separates (latent case)", detail=f"{lab(x)},{lab(y)} | {sep} latents {[lab(q) for q in lset]}")
                        for s in Zs:
                            M.check(dc[(x, y, tuple(z for z in Zs if z != s))], "separator minimal (latent case)")
                continue
            for x in range(n):
                for incl in (False, True):
                    got = g2.active_trail_nodes(lab(x), include_latents=incl)[lab(x)]
                    want = {lab(x)} | {lab(y) for y in range(n) if y != x and dc[(x, y, ())]}
                    if not incl:
                        want -= {lab(l)}
                    M.check(got == want, "active_trail_nodes latent filtering", detail=f"x={lab(x)} latent={lab(l)} incl={incl}: {got} vs {want}")
            for x in range(n):
                for y in range(n):
                    if x == y or l in (x, y) or E[(min(x, y), max(x, y))]:
                        continue
                    sep = g2.minimal_dseparator(lab(x), lab(y))
                    if sep is None:
                        continue
                    Zs = tuple(sorted(inv[s] for s in sep))
                    M.check(l not in Zs, "separator contains no latent node", detail=f"{sep}")
                    M.check(not dc[(x, y, Zs)], "returned set d-separates (latent case)", detail=f"{lab(x)},{lab(y)} | {sep} latent {lab(l)}")
                    for s in Zs:
                        M.check(dc[(x, y, tuple(z for z in Zs if z != s))], "separator minimal (latent case)")


def run_nb(desc, M):
    from pgmpy.models import NaiveBayes
    M.declare([])
    k = desc["nfeat"]
    feats = [f"f{i}" for i in range(k)]
    nb = NaiveBayes(feature_vars=feats, dependent_var="c")
    n = k + 1
    E = {(u, v): (u == 0) for u in range(n) for v in range(u + 1, n)}
    lab = lambda i: "c" if i == 0 else feats[i - 1]  # noqa
    for x in range(n):
        others = [v for v in range(n) if v != x]
        for r in range(len(others) + 1):
            for Z in itertools.combinations(others, r):
                got = nb.active_trail_nodes(lab(x), observed=[lab(z) for z in Z])  # NaiveBayes documents a plain set
                want = {lab(x)} | {lab(y) for y in others if y not in Z and dconn_py(n, E, x, y, Z)}
                M.check(set(got) == want, "NaiveBayes.active_trail_nodes", detail=f"{lab(x)}|{Z}: {got} vs {want}")
    for v in range(n):
        li = nb.local_independencies(lab(v))
        for a in li.get_assertions():
            for e1 in a.event1:
                for e2 in a.event2:
                    M.check(not dconn_py(n, E, (["c"] + feats).index(e1), (["c"] + feats).index(e2), tuple(sorted((["c"] + feats).index(z) for z in a.event3))),
                            "NaiveBayes.local_independencies sound", detail=str(a))

"""Shared scenario vocabulary: small DAG shapes, cardinalities, state-name labelings, symbolic CPD tables and the
joint-table oracle (DESIGN.md 3.6).  The oracle is written over the harness's own symbols and never calls pgmpy."""
import itertools
from fractions import Fraction

import numpy as np

from symx import core

# ---------------------------------------------------------------------------------------- structure

# name -> (nodes, parents) ; parents' list order = declared evidence order (deliberately not sorted)
SHAPES = {
    "single": (["A"], {"A": []}),
    "pair": (["A", "B"], {"A": [], "B": ["A"]}),
    "indep2": (["A", "B"], {"A": [], "B": []}),
    "chain3": (["A", "B", "C"], {"A": [], "B": ["A"], "C": ["B"]}),
    "fork3": (["A", "B", "C"], {"A": [], "B": ["A"], "C": ["A"]}),
    "collider3": (["A", "B", "C"], {"A": [], "B": [], "C": ["B", "A"]}),
    "full3": (["A", "B", "C"], {"A": [], "B": ["A"], "C": ["B", "A"]}),
    "iso3": (["A", "B", "C"], {"A": [], "B": ["A"], "C": []}),
    "chain4": (["A", "B", "C", "D"], {"A": [], "B": ["A"], "C": ["B"], "D": ["C"]}),
    "diamond": (["A", "B", "C", "D"], {"A": [], "B": ["A"], "C": ["A"], "D": ["C", "B"]}),
    "collchild": (["A", "B", "C", "D"], {"A": [], "B": [], "C": ["B", "A"], "D": ["C"]}),
    "twopairs": (["A", "B", "C", "D"], {"A": [], "B": ["A"], "C": [], "D": ["C"]}),
    "threepar": (["A", "B", "C", "D"], {"A": [], "B": [], "C": [], "D": ["C", "A", "B"]}),
    "vstruct_chain": (["A", "B", "C", "D"], {"A": [], "B": ["A"], "C": [], "D": ["B", "C"]}),
    "full4": (["A", "B", "C", "D"], {"A": [], "B": ["A"], "C": ["A", "B"], "D": ["C", "A", "B"]}),
}

NAME_STYLES = {
    "str": lambda v: v,
    "int": lambda v: "ABCDEFGH".index(v),
    "tuple": lambda v: ("n", "ABCDEFGH".index(v)),
    "long": lambda v: "var_" + v.lower(),
}


def all_dags(n, names="ABCDE"):
    """All DAGs on n nodes compatible with the fixed topological order names[0] < names[1] < ..."""
    nodes = list(names[:n])
    pairs = [(i, j) for i in range(n) for j in range(i + 1, n)]
    out = []
    for mask in range(1 << len(pairs)):
        par = {v: [] for v in nodes}
        for k, (i, j) in enumerate(pairs):
            if mask >> k & 1:
                par[nodes[j]].append(nodes[i])
        # non-sorted declared order: reverse
        for v in par:
            par[v] = par[v][::-1]
        out.append((nodes, par))
    return out


def state_names(style, var, card):
    """Labeling of the states of `var`. 'default' = None (pgmpy falls back to 0..k-1)."""
    if style == "default":
        return None
    if style == "str":
        return [f"{str(var).lower()}{i}" for i in range(card)]
    if style == "permint":  # integers, but not in natural order: name != index
        return [(i + 1) % card + 10 for i in range(card)] if card > 1 else [10]
    if style == "permrange":  # a permutation of 0..k-1: labels that look like indices but are not
        return [(i + 1) % card for i in range(card)]
    if style == "mixed":
        return [i if i % 2 == 0 else f"s{i}" for i in range(card)]
    if style == "tuple":
        return [(str(var), i) for i in range(card)]
    if style == "shared":  # the same labels on every variable
        return ["lo", "mid", "hi"][:card] if card <= 3 else [f"l{i}" for i in range(card)]
    raise ValueError(style)


STATE_STYLES = ["default", "str", "permint", "mixed", "tuple", "shared", "permrange"]


def relabel(desc):
    """node -> public node name according to desc['names'] style"""
    f = NAME_STYLES[desc.get("names", "str")]
    return {v: f(v) for v in desc["nodes"]}


def sym_names(desc):
    names = []
    for vi, v in enumerate(desc["nodes"]):
        ncol = int(np.prod([desc["card"][p] for p in desc["parents"][v]])) if desc["parents"][v] else 1
        if v in desc.get("fixed_cpds", []):
            continue
        names += [f"t{vi}_{i}_{j}" for i in range(desc["card"][v] - 1) for j in range(ncol)]
    return names


def _fixed_column(rnd, k):
    w = [rnd.randint(1, 9) for _ in range(k)]
    s = sum(w)
    return [Fraction(x, s) for x in w]


def make_tables(desc, M, positive=False):
    """tabs[v][i][j]: oracle-side value (SymReal/Fraction) of P(v=i | j-th parent configuration, row-major in the
    declared parent order).  Free parametrisation: last row = 1 - sum of the others."""
    import random
    rnd = random.Random(desc.get("fixed_seed", 1))
    tabs = {}
    for vi, v in enumerate(desc["nodes"]):
        k = desc["card"][v]
        ncol = int(np.prod([desc["card"][p] for p in desc["parents"][v]])) if desc["parents"][v] else 1
        if v in desc.get("fixed_cpds", []):
            cols = [_fixed_column(rnd, k) for _ in range(ncol)]
            tabs[v] = [[M.const(cols[j][i]) for j in range(ncol)] for i in range(k)]
            continue
        rows = [[M.sym(f"t{vi}_{i}_{j}", pos=positive, nonneg=not positive) for j in range(ncol)] for i in range(k - 1)]
        last = []
        for j in range(ncol):
            l = M.const(1)
            for i in range(k - 1):
                l = l - rows[i][j]
            if positive:
                M.assume(l > 0, None) if k > 1 else None
                M.mark_pos(l)
            else:
                if k > 1:
                    M.assume(l >= 0, None)
            last.append(l)
        rows.append(last)
        tabs[v] = rows
    return tabs


def col_index(desc, v, assign):
    col = 0
    for p in desc["parents"][v]:
        col = col * desc["card"][p] + assign[p]
    return col


def joint_entry(desc, tabs, assign):
    e = None
    for v in desc["nodes"]:
        t = tabs[v][assign[v]][col_index(desc, v, assign)]
        e = t if e is None else e * t
    return e


def assignments(desc, variables):
    variables = list(variables)
    for st in itertools.product(*[range(desc["card"][v]) for v in variables]):
        yield dict(zip(variables, st))


def joint_table(desc, tabs):
    """dict: tuple(states in desc['nodes'] order) -> value"""
    nodes = desc["nodes"]
    return {tuple(a[v] for v in nodes): joint_entry(desc, tabs, a) for a in assignments(desc, nodes)}


def marginal(desc, jt, fixed):
    """sum of joint entries consistent with `fixed` (dict node -> state index)"""
    nodes = desc["nodes"]
    idx = [(nodes.index(v), s) for v, s in fixed.items()]
    tot = 0
    for st, val in jt.items():
        if all(st[i] == s for i, s in idx):
            tot = tot + val
    return tot


def build_bn(desc, M, tabs, cls=None):
    """Real pgmpy BayesianNetwork from the tables; node names/state names per desc."""
    from pgmpy.factors.discrete import TabularCPD
    from pgmpy.models import BayesianNetwork
    nm = relabel(desc)
    style = desc.get("states", "default")
    model = (cls or BayesianNetwork)()
    order = desc.get("node_order", desc["nodes"])
    for v in order:
        if v in desc.get("latents", []):
            model.add_node(nm[v], latent=True)  # declared latent: carries a CPD, never queried or observed by the harness
        else:
            model.add_node(nm[v])
    edges = [(p, v) for v in desc["nodes"] for p in desc["parents"][v]]
    if desc.get("edge_rev"):
        edges = edges[::-1]
    for p, v in edges:
        model.add_edge(nm[p], nm[v])
    cpds = []
    for v in desc["nodes"]:
        pa = desc["parents"][v]
        sn = None
        if style != "default":
            sn = {nm[x]: state_names(style, x, desc["card"][x]) for x in [v] + pa}
        cpd = TabularCPD(nm[v], desc["card"][v], M.impl_table(tabs[v]),
                         evidence=[nm[p] for p in pa] or None,
                         evidence_card=[desc["card"][p] for p in pa] or None,
                         **({"state_names": sn} if sn else {}))
        cpds.append(cpd)
    if desc.get("cpd_rev"):
        cpds = cpds[::-1]
    model.add_cpds(*cpds)
    return model, nm


def sname(desc, v, i):
    """public state name of state index i of node v"""
    sn = state_names(desc.get("states", "default"), v, desc["card"][v])
    return i if sn is None else sn[i]


def expected_state_names(desc, v):
    sn = state_names(desc.get("states", "default"), v, desc["card"][v])
    return list(range(desc["card"][v])) if sn is None else sn


def card_options(nodes, tier):
    n = len(nodes)
    opts = [(2,) * n, tuple([2, 3, 2, 2][:n]), tuple([1, 2, 3, 2][:n])]
    if tier == "thorough":
        opts += [tuple([3, 2, 2, 3][:n]), tuple([2, 1, 2, 2][:n]), tuple([3, 3, 2, 2][:n])]
    seen = []
    for o in opts:
        if o not in seen:
            seen.append(o)
    return [dict(zip(nodes, o)) for o in seen]

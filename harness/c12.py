"""C12 - constraint-based discovery is exact given exact independence information (DESIGN.md 5/C12)."""
import itertools

import z3

from symx import core, oracles as O

PROPERTY = "C12"
BUDGET = {"quick": 280, "thorough": 1500}
LEVEL = "model_checking"
BOUNDS = {
    "quick": "lazy mode: real PC.build_skeleton/skeleton_to_pdag/estimate with a d-separation oracle over an UNKNOWN acyclic graph (edges symbolic), "
             "n<=4, variants orig/stable/parallel(n_jobs=1), return types skeleton/pdag/dag, max_cond_vars=n; independencies= entry point on all 25 "
             "labelled 3-node DAGs; PDAG.to_dag on all 64 three-node and 512 sampled four-node PDAGs",
    "thorough": "lazy n=5 (pdag, stable+orig), all 4096 four-node PDAGs, independencies= on all 543 four-node DAGs",
}
ASSUMPTIONS = ["CI questions are answered exactly by d-separation in the ground-truth DAG (no statistics)",
               "paths = CI answer patterns; each final obligation is a z3 query over ALL acyclic graphs consistent with the path condition"]


def scenarios(tier, seed):
    out = []
    k = 0
    ns = [3, 4] if tier == "quick" else [3, 4, 5]
    for n in ns:
        for variant in ["orig", "stable", "parallel"]:
            for rt in ["pdag", "skeleton", "dag"]:
                if n == 5 and (variant == "parallel" or rt != "pdag"):
                    continue
                for hs in ((0, 1) if tier == "quick" else (0, 1, 2, 3)):
                    if n >= 4 and hs > 1:
                        continue
                    k += 1
                    out.append(dict(family=f"lazy/{variant}/{rt}/n{n}", mode="lazy", n=n, variant=variant, rt=rt, hashseed=hs,
                                    labels=["str", "int"][k % 2], budget_s=150 if n <= 4 else 1200, max_paths=20000, cost=10 ** n, validate=True))
    # tight bound: max_cond_vars equal to the maximal degree (the unknown graph is assumed to have degree <= m)
    for variant in ["orig", "stable", "parallel"]:
        for m in (1, 2):
            k += 1
            out.append(dict(family=f"lazy/{variant}/pdag/n4-tight", mode="lazy", n=4, variant=variant, rt="pdag", hashseed=k % 2, labels=["str", "int"][k % 2],
                            budget_s=150, max_paths=20000, cost=5000, max_cond_vars=m, max_degree=m, validate=True))
    # five nodes: graphs in the neighbourhood of a dense base graph (three node pairs left completely unknown), where Meek's rule 4 feeds further
    # orientations
    base5 = [(3, 0), (3, 4), (3, 2), (0, 2), (4, 2), (0, 1), (4, 1), (2, 1)]
    for free in ([(1, 2), (0, 4), (1, 3)], [(2, 3), (0, 1), (0, 3)], [(1, 4), (2, 4), (0, 4)]):
        for variant in (["stable"] if tier == "quick" else ["orig", "stable"]):
            k += 1
            out.append(dict(family=f"lazy/{variant}/pdag/n5-dense", mode="lazy", n=5, variant=variant, rt="pdag", hashseed=k % 2, labels="str", budget_s=150,
                            max_paths=20000, cost=8000, base_edges=base5, free_pairs=free, validate=True))
    # independencies= entry point, eager
    for n in ([3] if tier == "quick" else [3, 4]):
        for dag in all_labelled_dags(n):
            k += 1
            if n == 4 and tier == "thorough" and k % 2:
                continue
            out.append(dict(family=f"indep/n{n}", mode="indep", n=n, edges=dag, variant=["orig", "stable", "parallel"][k % 3], hashseed=k % 2))
    # PDAG.to_dag
    for n in (3, 4):
        pairs = [(u, v) for u in range(n) for v in range(u + 1, n)]
        total = 4 ** len(pairs)
        step = 1 if (n == 3 or tier == "thorough") else 8
        chunk = 16 if n == 3 else 64
        codes = list(range(seed % step, total, step))
        for i in range(0, len(codes), chunk):
            out.append(dict(family=f"to_dag/n{n}", mode="to_dag", n=n, codes=codes[i:i + chunk], hashseed=(i // chunk) % 2))
    return out


def all_labelled_dags(n):
    pairs = [(u, v) for u in range(n) for v in range(n) if u != v]
    und = [(u, v) for u in range(n) for v in range(u + 1, n)]
    out = []
    for states in itertools.product((0, 1, 2), repeat=len(und)):
        edges = []
        for (u, v), s in zip(und, states):
            if s == 1:
                edges.append((u, v))
            elif s == 2:
                edges.append((v, u))
        if is_acyclic(n, edges):
            out.append(edges)
    return out


def is_acyclic(n, edges):
    indeg = {v: 0 for v in range(n)}
    for u, v in edges:
        indeg[v] += 1
    q = [v for v in range(n) if indeg[v] == 0]
    seen = 0
    while q:
        u = q.pop()
        seen += 1
        for a, b in edges:
            if a == u:
                indeg[b] -= 1
                if indeg[b] == 0:
                    q.append(b)
    return seen == n


def vstructures(n, edges):
    es = set(edges)
    adj = {frozenset(e) for e in edges}
    out = set()
    for c in range(n):
        pa = [u for u in range(n) if (u, c) in es]
        for a, b in itertools.combinations(pa, 2):
            if frozenset((a, b)) not in adj:
                out.add((min(a, b), c, max(a, b)))
    return out


def mec_members(n, edges):
    skel = sorted({tuple(sorted(e)) for e in edges})
    vs = vstructures(n, edges)
    out = []
    for bits in itertools.product((0, 1), repeat=len(skel)):
        es = [(u, v) if b == 0 else (v, u) for (u, v), b in zip(skel, bits)]
        if is_acyclic(n, es) and vstructures(n, es) == vs:
            out.append(set(es))
    return out


# ---------------------------------------------------------------------------------------- general symbolic DAG


class SymDag:
    """unknown acyclic graph: E[(i,j)] for i != j, acyclicity via integer ranks"""

    def __init__(self, M, n, desc=None):
        self.n = n
        V = range(n)
        self.Eb = {(i, j): M.bool(f"d_{i}_{j}") for i in V for j in V if i != j}
        if M.symbolic:
            self.E = {k: core.zbool(b) for k, b in self.Eb.items()}
            rk = [z3.Int(f"rk{i}") for i in V]
            self.acyclic = [z3.And(rk[i] >= 0, rk[i] < n) for i in V] + [z3.Implies(e, rk[i] < rk[j]) for (i, j), e in self.E.items()]
            self.restricted = desc is not None and desc.get("base_edges") is not None
            for c in self.acyclic:
                M.assume(c, None)
            core.CTX.assumptions.append("ground truth is an acyclic directed graph (rank function)")
            if desc is not None and desc.get("max_degree") is not None:
                m = desc["max_degree"]
                for i in V:
                    M.assume(z3.Sum([z3.If(z3.Or(self.E[(i, j)], self.E[(j, i)]), 1, 0) for j in V if j != i]) <= m, None)
                core.CTX.assumptions.append(f"every node of the ground truth has at most {m} neighbours (max_cond_vars is set to that bound)")
            if desc is not None and desc.get("base_edges") is not None:
                base = {tuple(e) for e in desc["base_edges"]}
                free = {frozenset(p) for p in desc["free_pairs"]}
                for (i, j), e in self.E.items():
                    if frozenset((i, j)) in free:
                        continue
                    M.assume(e if (i, j) in base else z3.Not(e), None)
                core.CTX.assumptions.append(f"ground truth agrees with a fixed dense graph outside the node pairs {sorted(map(sorted, free))}")
        else:
            self.E = {k: bool(b) for k, b in self.Eb.items()}
            edges = [k for k, b in self.E.items() if b]
            M.assume(is_acyclic(n, edges) and not any((j, i) in edges for i, j in edges), "acyclic ground truth")
            if desc is not None and desc.get("max_degree") is not None:
                M.assume(all(sum(1 for j in V if j != i and ((i, j) in edges or (j, i) in edges)) <= desc["max_degree"] for i in V), "degree bound")
            if desc is not None and desc.get("base_edges") is not None:
                base = {tuple(e) for e in desc["base_edges"]}
                free = {frozenset(p) for p in desc["free_pairs"]}
                M.assume(all(((i, j) in edges) == ((i, j) in base) for i in V for j in V if i != j and frozenset((i, j)) not in free), "fixed part of the graph")
        self.cache = {}

    def ez(self, i, j):
        e = self.E[(i, j)]
        return z3.BoolVal(e) if isinstance(e, bool) else e

    def adjz(self, i, j):
        return z3.Or(self.ez(i, j), self.ez(j, i))

    def dsep(self, x, y, Z):
        key = (min(x, y), max(x, y), frozenset(Z))
        if key in self.cache:
            return self.cache[key]
        n = self.n
        V = range(n)
        cur = [z3.BoolVal(i in (x, y) or i in Z) for i in V]
        for _ in range(n - 1):
            cur = [z3.Or(cur[i], *[z3.And(self.ez(i, j), cur[j]) for j in V if j != i]) for i in V]
        A = cur

        def und(i, j):
            moral = [z3.And(A[c], self.ez(i, c), self.ez(j, c)) for c in V if c not in (i, j)]
            return z3.And(A[i], A[j], z3.Or(self.adjz(i, j), *moral))
        reach = [z3.BoolVal(i == x) for i in V]
        for _ in range(n - 1):
            reach = [z3.Or(reach[i], *[z3.And(reach[j], und(i, j)) for j in V if j != i and j not in Z]) if i not in Z else z3.BoolVal(False)
                     for i in V]
        r = z3.simplify(z3.Not(reach[y]))
        self.cache[key] = r
        return r


LABELS = {"str": lambda i: f"v{i}", "int": lambda i: 10 - i}


def run(desc, M):
    if desc["mode"] == "lazy":
        return run_lazy(desc, M)
    if desc["mode"] == "indep":
        return run_indep(desc, M)
    return run_to_dag(desc, M)


def truth(M, f):
    """formula -> SymBool (symbolic) or bool (concrete)"""
    if M.symbolic:
        return core.SymBool(f)
    return O.eval_bool(f)


def run_lazy(desc, M):
    from pgmpy.estimators import PC
    from pgmpy.independencies import Independencies
    n = desc["n"]
    lab = LABELS[desc["labels"]]
    names = [lab(i) for i in range(n)]
    idx = {names[i]: i for i in range(n)}
    M.declare([])
    G = SymDag(M, n, desc)

    def ci_test(u, v, Zs, **kw):
        return bool(truth(M, G.dsep(idx[u], idx[v], {idx[z] for z in Zs})))
    est = PC(independencies=Independencies())
    est.variables = list(names)
    rt = desc["rt"]
    res = est.estimate(variant=desc["variant"], ci_test=ci_test, max_cond_vars=desc.get("max_cond_vars", n), return_type=rt, show_progress=False, n_jobs=1)
    V = range(n)
    concrete_edges = None if M.symbolic else {k for k, b in G.E.items() if b}
    if rt == "skeleton":
        skel, sepsets = res
        adj = {frozenset((idx[u], idx[v])) for u, v in skel.edges()}
        for i, j in itertools.combinations(V, 2):
            M.check(truth(M, G.adjz(i, j) == z3.BoolVal(frozenset((i, j)) in adj)), "skeleton equals the adjacency of the ground truth")
            if frozenset((i, j)) not in adj:
                key = frozenset((names[i], names[j]))
                if M.check(key in sepsets, "separating set recorded for every removed edge"):
                    S = {idx[z] for z in sepsets[key]}
                    M.check(truth(M, G.dsep(i, j, S)), "recorded separating set d-separates the pair")
        M.check(set(skel.nodes()) == set(names), "skeleton nodes")
        return
    if rt == "dag":
        dag = res
        M.check(set(dag.nodes()) <= set(names), "dag nodes")
        es = {(idx[u], idx[v]) for u, v in dag.edges()}
        M.check(is_acyclic(n, list(es)), "returned DAG acyclic")
        if M.symbolic:
            # the returned DAG is a member of the class: it satisfies every CI answer given on this path
            vals = {f"d_{i}_{j}": (1 if (i, j) in es else 0) for i in V for j in V if i != j}
            ok = all(core.eval_under(c, vals) is True for c in core.ENG.pc)
            M.check(ok, "returned DAG is consistent with every independence answer (member of the equivalence class)", detail=str(sorted(es)))
            for i, j in itertools.combinations(V, 2):
                M.check(core.SymBool(G.adjz(i, j) == z3.BoolVal((i, j) in es or (j, i) in es)), "returned DAG has the ground truth's skeleton")
        else:
            mem = mec_members(n, list(concrete_edges))
            M.check(es in mem, "returned DAG is a member of the ground truth's Markov equivalence class", detail=f"{sorted(es)} vs truth {sorted(concrete_edges)}")
        return
    pdag = res
    dire = [(idx[u], idx[v]) for u, v in pdag.directed_edges]
    und = [(idx[u], idx[v]) for u, v in pdag.undirected_edges]
    und = list({tuple(sorted(e)) for e in und})
    adj = {frozenset(e) for e in dire} | {frozenset(e) for e in und}
    M.check(set(pdag.nodes()) <= set(names), "pdag nodes")
    M.check(not any((j, i) in dire for i, j in dire), "no edge directed both ways")
    M.check(is_acyclic(n, dire), "no directed cycle in the PDAG", detail=str(dire))
    if M.symbolic:
        M.samples.append(f"PDAG directed={dire} undirected={und} must be the CPDAG of every acyclic graph consistent with the CI answers")
        for i, j in itertools.combinations(V, 2):
            M.check(core.SymBool(G.adjz(i, j) == z3.BoolVal(frozenset((i, j)) in adj)), "PDAG skeleton equals the adjacency of the ground truth")
        for d in dire:
            M.check(core.SymBool(G.E[d]), "every directed edge is present in every consistent DAG (no spurious orientation)", detail=str(d))
        for (i, j) in und:
            for e in ((i, j), (j, i)):
                if getattr(G, "restricted", False):
                    # the scenario restricts the ground truth to a family of graphs (fixed dense part): "reversible" is a statement about the whole
                    # Markov equivalence class, so the witness may be ANY acyclic graph with the same CI answers, not only one of the family
                    s_ = z3.Solver()
                    s_.set("timeout", 20000)
                    s_.add(*G.acyclic)
                    s_.add(*core.ENG.pc)
                    s_.add(G.E[e])
                    st = str(s_.check())
                else:
                    st, _ = core.ENG._check([G.E[e]], 20000)
                M.n_obl += 1
                M.n_solver += 1
                if st == "unsat":
                    M.check(core.SymBool(z3.Not(G.E[e])) if False else False, "every compelled edge is oriented (undirected edges are reversible)",
                            detail=f"{(i, j)} left undirected but {e} is impossible; directed={dire} undirected={und}")
                elif st != "sat":
                    M.inconclusive.append(("reversible", "solver unknown"))
    else:
        mem = mec_members(n, list(concrete_edges))
        M.check(adj == {frozenset(e) for e in concrete_edges}, "PDAG skeleton equals the adjacency of the ground truth")
        for d in dire:
            M.check(all(d in m for m in mem), "every directed edge is present in every consistent DAG (no spurious orientation)", detail=f"{d}; truth {sorted(concrete_edges)}")
        for (i, j) in und:
            M.check(any((i, j) in m for m in mem) and any((j, i) in m for m in mem),
                    "every compelled edge is oriented (undirected edges are reversible)", detail=f"{(i, j)}; truth {sorted(concrete_edges)} directed={dire}")


def run_indep(desc, M):
    from pgmpy.base import DAG
    from pgmpy.estimators import PC
    M.declare([])
    n = desc["n"]
    names = [f"X{i}" for i in range(n)]
    g = DAG()
    g.add_nodes_from(names)
    g.add_edges_from([(names[u], names[v]) for u, v in desc["edges"]])
    ind = g.get_independencies()
    est = PC(independencies=ind)
    est.variables = list(names)
    truth_edges = {tuple(e) for e in desc["edges"]}
    mem = mec_members(n, list(truth_edges))
    idx = {names[i]: i for i in range(n)}
    # the documented CI test for this entry point, wrapped only to OBSERVE its answers: an answer that contradicts d-separation in the ground
    # truth means Independencies.closure()/entails is wrong for this list (the recorded C18 finding), not PC
    from pgmpy.estimators.CITests import independence_match
    E = {(u, v): ((u, v) in truth_edges) for u in range(n) for v in range(u + 1, n)}
    wrong = []

    def ci(u, v, Zs, **kw):
        got = bool(independence_match(u, v, Zs, **kw))
        want = not O.eval_bool(O.dconnected_def(E, n, idx[u], idx[v], {idx[z] for z in Zs}))
        if got != want:
            wrong.append((u, v, tuple(Zs), got))
        return got

    def K(label):
        return "indep:known-independence-list-entailment-wrong" if wrong else None
    pdag = est.estimate(variant=desc["variant"], ci_test=ci, max_cond_vars=n, return_type="pdag", show_progress=False, n_jobs=1)
    dire = [(idx[u], idx[v]) for u, v in pdag.directed_edges]
    und = list({tuple(sorted((idx[u], idx[v]))) for u, v in pdag.undirected_edges})
    adj = {frozenset(e) for e in dire} | {frozenset(e) for e in und}
    why = f" (independence_match answered {wrong[0]} against d-separation)" if wrong else ""
    M.check(adj == {frozenset(e) for e in truth_edges}, "independencies=: skeleton", detail=f"{adj} vs {truth_edges}{why}", key=K("s"))
    M.check(is_acyclic(n, dire), "independencies=: no directed cycle", detail=str(dire), key=K("c"))
    for d in dire:
        M.check(all(d in m for m in mem), "independencies=: directed edges compelled", detail=f"{d} truth {sorted(truth_edges)}{why}", key=K("d"))
    for (i, j) in und:
        M.check(any((i, j) in m for m in mem) and any((j, i) in m for m in mem), "independencies=: undirected edges reversible",
                detail=f"{(i, j)} truth {sorted(truth_edges)}{why}", key=K("u"))
    dag = est.estimate(variant=desc["variant"], ci_test=ci, max_cond_vars=n, return_type="dag", show_progress=False, n_jobs=1)
    es = {(idx[u], idx[v]) for u, v in dag.edges()}
    M.check(es in mem, "independencies=: returned DAG in the equivalence class", detail=f"{sorted(es)} truth {sorted(truth_edges)}{why}", key=K("m"))


def decode_pdag(n, code):
    pairs = [(u, v) for u in range(n) for v in range(u + 1, n)]
    dire, und = [], []
    for (u, v) in pairs:
        s = code % 4
        code //= 4
        if s == 1:
            dire.append((u, v))
        elif s == 2:
            dire.append((v, u))
        elif s == 3:
            und.append((u, v))
    return dire, und


def extensions(n, dire, und):
    """all consistent DAG extensions: orient undirected edges, acyclic, no new v-structure"""
    vs0 = vstructures_pdag(n, dire, und)
    out = []
    for bits in itertools.product((0, 1), repeat=len(und)):
        es = list(dire) + [(u, v) if b == 0 else (v, u) for (u, v), b in zip(und, bits)]
        if is_acyclic(n, es) and vstructures(n, es) == vs0:
            out.append(set(es))
    return out


def vstructures_pdag(n, dire, und):
    adj = {frozenset(e) for e in dire} | {frozenset(e) for e in und}
    ds = set(dire)
    out = set()
    for c in range(n):
        pa = [u for u in range(n) if (u, c) in ds]
        for a, b in itertools.combinations(pa, 2):
            if frozenset((a, b)) not in adj:
                out.add((min(a, b), c, max(a, b)))
    return out


def run_to_dag(desc, M):
    from pgmpy.base import PDAG
    M.declare([])
    n = desc["n"]
    names = [f"n{i}" for i in range(n)]
    idx = {names[i]: i for i in range(n)}
    next_ext = 0
    for code in desc["codes"]:
        dire, und = decode_pdag(n, code)
        if not is_acyclic(n, dire):
            continue
        # z3 decides extendability (exists an orientation ...); brute force cross-checks the encoding
        ext = extensions(n, dire, und)
        if M.symbolic and und:
            o = [z3.Bool(f"o_{code}_{k}") for k in range(len(und))]
            s = z3.Solver()
            rk = [z3.Int(f"r_{code}_{i}") for i in range(n)]
            for i in range(n):
                s.add(rk[i] >= 0, rk[i] < n)
            allE = {}
            for (u, v) in dire:
                allE[(u, v)] = z3.BoolVal(True)
            for (u, v), b in zip(und, o):
                allE[(u, v)] = b
                allE[(v, u)] = z3.Not(b)
            for (u, v), e in allE.items():
                s.add(z3.Implies(e, rk[u] < rk[v]))
            adjset = {frozenset(e) for e in dire} | {frozenset(e) for e in und}
            vs0 = vstructures_pdag(n, dire, und)
            for c in range(n):
                for a, b in itertools.combinations([x for x in range(n) if x != c], 2):
                    if frozenset((a, b)) in adjset:
                        continue
                    ea, eb = allE.get((a, c)), allE.get((b, c))
                    if ea is None or eb is None:
                        continue
                    if (min(a, b), c, max(a, b)) not in vs0:
                        s.add(z3.Not(z3.And(ea, eb)))
            r = str(s.check())
            M.n_obl += 1
            M.n_solver += 1
            M.check((r == "sat") == bool(ext), "oracle self-check: z3 extendability == brute force", detail=f"code {code}: {r} vs {len(ext)}")
        if not ext:
            continue  # non-extendable inputs are outside the property
        next_ext += 1
        p = PDAG(directed_ebunch=[(names[u], names[v]) for u, v in dire], undirected_ebunch=[(names[u], names[v]) for u, v in und])
        p.add_nodes_from(names)
        before = (set(p.directed_edges), set(map(frozenset, p.undirected_edges)))
        dag = p.to_dag()
        es = {(idx[u], idx[v]) for u, v in dag.edges()}
        tag = f"PDAG directed={dire} undirected={und} -> {sorted(es)}"
        M.check(is_acyclic(n, list(es)), "to_dag: acyclic", detail=tag)
        M.check({frozenset(e) for e in es} == {frozenset(e) for e in dire} | {frozenset(e) for e in und}, "to_dag: same skeleton", detail=tag)
        M.check(set(dire) <= es, "to_dag: keeps all directed edges", detail=tag)
        M.check(vstructures(n, list(es)) == vstructures_pdag(n, dire, und), "to_dag: creates no new v-structure", detail=tag)
        M.check((set(p.directed_edges), set(map(frozenset, p.undirected_edges))) == before, "to_dag leaves the PDAG unchanged")
    if M.symbolic:
        M.samples.append(f"{next_ext} extendable PDAGs among codes {desc['codes'][:3]}...")

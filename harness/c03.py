"""C03 - MAP queries return a maximiser of the exact posterior (DESIGN.md 5/C03)."""
import itertools
from fractions import Fraction

import numpy as np

from . import common as C

PROPERTY = "C03"
LEVEL = "model_checking"
BOUNDS = {
    "quick": "BNs <=4 nodes all CPD entries symbolic (>=0, zeros and ties inside), Markov networks <=3 variables all entries symbolic >0; "
             "|Q|<=2 with <=6 joint states, |E|<=1, optional virtual evidence, VE orders {MinFill,MinNeighbors,MinWeight,WeightedMinFill,explicit}, "
             "BP engine on connected BNs; arg-max comparisons fork (every tie pattern explored)",
    "thorough": "more shapes/cardinalities, |Q| up to 9 joint states",
}
ASSUMPTIONS = ["exact real arithmetic", "P(evidence) > 0", "ties are free (any maximiser accepted)"]
ORDERS = ["MinFill", "MinNeighbors", "MinWeight", "WeightedMinFill", "explicit"]

MNS = {
    "mchain3": (["A", "B", "C"], [["A", "B"], ["B", "C"]]),
    "mtri": (["A", "B", "C"], [["A", "B"], ["B", "C"], ["C", "A"]]),
    "mpair_unary": (["A", "B"], [["A", "B"], ["B"]]),
    "mstar": (["A", "B", "C"], [["B", "A"], ["B", "C"], ["B"]]),
    # several factors over the same scope: with symbolic entries "the two tables happen to be equal" is a feasible branch of the hash model
    "mdup": (["A", "B", "C"], [["A", "B"], ["B", "C"], ["A", "B"], ["B"], ["B"]]),
}


def scenarios(tier, seed):
    out = []
    k = 0
    maxcells = 4 if tier == "quick" else 9
    shapes = ["single", "pair", "chain3", "fork3", "collider3", "full3", "iso3", "diamond", "collchild", "twopairs"]
    if tier == "thorough":
        shapes += ["chain4", "threepar", "vstruct_chain"]
    for sname in shapes:
        nodes, parents = C.SHAPES[sname]
        for card in C.card_options(nodes, tier)[: (2 if tier == "quick" else 4)]:
            qes = []
            for r in (1, 2):
                for q in itertools.combinations(nodes, r):
                    if int(np.prod([card[v] for v in q])) > maxcells:
                        continue
                    qes.append((list(q), {}))
                    for e in nodes:
                        if e not in q:
                            qes.append((list(q)[::-1], {e: None}))
            for q, ev in qes:
                k += 1
                if tier == "quick" and k % 2:
                    continue
                ev2 = {e: (k + i) % card[e] for i, e in enumerate(ev)}
                engine = "bp" if (k % 4 == 0 and sname not in ("iso3", "twopairs", "single")) else "ve"
                virt = None
                if k % 6 == 0:
                    cand = [x for x in nodes if x not in q and x not in ev2]
                    if cand:
                        virt = cand[k % len(cand)]
                fixed = []
                if len(nodes) == 4 and tier == "quick":
                    fixed = [nodes[(k + 1) % 4], nodes[(k + 2) % 4]]
                lat = [x for x in nodes if x not in q and x not in ev2 and x != virt]
                lat = lat[: 1 + k % 2] if (k % 3 == 1 and lat) else []
                out.append(dict(latents=lat, family=f"map/{engine}/{sname}", kind="bn", nodes=nodes, parents=parents, card=card, q=q, ev=ev2, virt=virt,
                                fixed_cpds=fixed, fixed_seed=k, budget_s=45,
                                engine=engine, order=ORDERS[k % len(ORDERS)], states=C.STATE_STYLES[k % len(C.STATE_STYLES)],
                                names="str" if virt else list(C.NAME_STYLES)[k % 4], hashseed=k % 2,
                                cost=len(C.sym_names(dict(nodes=nodes, parents=parents, card=card)))))
    # BayesianNetwork.predict: row-wise MAP of all missing variables (duplicate rows are answered once and merged back)
    for sname in ["pair", "chain3", "fork3", "collider3", "full3", "diamond", "collchild"]:
        nodes, parents = C.SHAPES[sname]
        for card in C.card_options(nodes, tier)[: (2 if tier == "quick" else 4)]:
            for r in range(1, len(nodes)):
                for cols in itertools.combinations(nodes, r):
                    missing = [v for v in nodes if v not in cols]
                    if int(np.prod([card[v] for v in missing])) > maxcells:
                        continue
                    k += 1
                    if tier == "quick" and k % 3:
                        continue
                    rows = [{e: (k + i + j) % card[e] for i, e in enumerate(cols)} for j in range(2)]
                    rows.append(dict(rows[0]))
                    fixed = [nodes[(k + 1) % 4], nodes[(k + 2) % 4]] if (len(nodes) == 4 and tier == "quick") else []
                    styles = [s for s in C.STATE_STYLES if s != "tuple"]
                    out.append(dict(family=f"map/predict/{sname}", kind="bn", mode="predict", nodes=nodes, parents=parents, card=card, cols=list(cols), rows=rows,
                                    q=missing, ev={}, engine=["ve", "bp"][k % 2], fixed_cpds=fixed, fixed_seed=k, budget_s=45,
                                    states=styles[k % len(styles)], names=["str", "long", "int"][k % 3], hashseed=k % 2,
                                    cost=len(C.sym_names(dict(nodes=nodes, parents=parents, card=card)))))
    for mname, (nodes, scopes) in MNS.items():
        for ci_, card in enumerate(C.card_options(nodes, tier)[:2]):
            if tier == "quick" and mname == "mdup" and ci_ > 0:
                continue   # (the three-state variant of the duplicate-scope network costs a minute per scenario: thorough tier only)
            for r in (1, 2):
                for q in itertools.combinations(nodes, r):
                    if int(np.prod([card[v] for v in q])) > maxcells:
                        continue
                    for ev in [{}] + [{e: None} for e in nodes if e not in q]:
                        k += 1
                        ev2 = {e: (k + i) % card[e] for i, e in enumerate(ev)}
                        if tier == "quick" and k % 2:
                            continue
                        out.append(dict(family=f"map/ve-mn/{mname}", kind="mn", budget_s=45, nodes=nodes, scopes=scopes, card=card, q=list(q), ev=ev2,
                                        engine="ve", order=[None, "explicit"][k % 2], states=C.STATE_STYLES[k % len(C.STATE_STYLES)],
                                        hashseed=k % 2, cost=1000))
                        vcand = [x for x in nodes if x not in q and x not in ev2]
                        if vcand and k % (12 if tier == "quick" else 4) == 0 and mname != "mdup":
                            # virtual (soft) evidence on a Markov network: the likelihood multiplies the unnormalised joint
                            out.append(dict(family=f"map/ve-mn-virtual/{mname}", kind="mn", budget_s=45, nodes=nodes, scopes=scopes, card=card, q=list(q), ev=ev2,
                                            engine="ve", order=[None, "explicit"][k % 2], states=C.STATE_STYLES[k % len(C.STATE_STYLES)],
                                            hashseed=k % 2, virt=vcand[0], cost=1000))
                            if mname in ("mchain3", "mpair_unary") and not ev2:
                                # the same through belief propagation (the soft evidence is honoured by both engines)
                                out.append(dict(family=f"map/bp-mn-virtual/{mname}", kind="mn", budget_s=45, nodes=nodes, scopes=scopes, card=card, q=list(q), ev=ev2,
                                                engine="bp", order=None, states=C.STATE_STYLES[k % len(C.STATE_STYLES)], hashseed=k % 2, virt=vcand[0], cost=1000))
    return out


def mn_names(desc):
    names = []
    for i, s in enumerate(desc["scopes"]):
        if i in desc.get("fixed_factors", []):
            continue
        n = int(np.prod([desc["card"][v] for v in s]))
        names += [f"f{i}_{j}" for j in range(n)]
    return names


def build_mn(desc, M, positive=True):
    """returns (MarkovNetwork, value(assignment)->unnormalised joint)"""
    from pgmpy.factors.discrete import DiscreteFactor
    from pgmpy.models import MarkovNetwork
    card = desc["card"]
    style = desc["states"]
    mn = MarkovNetwork()
    mn.add_nodes_from(desc["nodes"])
    facs = []
    syms = []
    for i, s in enumerate(desc["scopes"]):
        for a, b in itertools.combinations(s, 2):
            mn.add_edge(a, b)
        n = int(np.prod([card[v] for v in s]))
        if i in desc.get("fixed_factors", []):
            import random
            from fractions import Fraction
            rnd = random.Random(1000 * desc.get("fixed_seed", 1) + i)
            sy = [M.const(Fraction(rnd.randint(1, 9), rnd.randint(1, 4))) for _ in range(n)]
        else:
            sy = [M.sym(f"f{i}_{j}", pos=positive) for j in range(n)]
        syms.append(sy)
        sn = {v: C.state_names(style, v, card[v]) for v in s} if style != "default" else None
        facs.append(DiscreteFactor(s, [card[v] for v in s], [M.impl(x) for x in sy], **({"state_names": sn} if sn else {})))
    mn.add_factors(*facs)

    def val(a):
        t = None
        for s, sy in zip(desc["scopes"], syms):
            idx = 0
            for v in s:
                idx = idx * card[v] + a[v]
            t = sy[idx] if t is None else t * sy[idx]
        return t
    return mn, val, syms


def run_predict(desc, M):
    import pandas as pd
    from pgmpy.inference import BeliefPropagation
    nodes, card = desc["nodes"], desc["card"]
    M.declare(C.sym_names(desc))
    tabs = C.make_tables(desc, M, positive=False)
    jt = C.joint_table(desc, tabs)
    model, nm = C.build_bn(desc, M, tabs)
    for row in desc["rows"]:
        pe = C.marginal(desc, jt, row)
        M.assume(pe > 0, "P(evidence row) > 0")
        M.mark_pos(pe)
    col_data = {}
    for e in desc["cols"]:
        ser = pd.Series([None] * len(desc["rows"]), index=[5, 7, 9][:len(desc["rows"])], dtype=object)
        for i, row in enumerate(desc["rows"]):
            ser.iloc[i] = C.sname(desc, e, row[e])
        col_data[nm[e]] = ser
    data = pd.DataFrame(col_data)
    before = data.copy()
    kw = dict(algo=BeliefPropagation) if desc["engine"] == "bp" else {}
    res = model.predict(data, n_jobs=1, **kw)
    missing = desc["q"]
    M.check(data.equals(before), "predict leaves the data frame unchanged")
    if not M.check(set(res.columns) == {nm[v] for v in missing} and len(res) == len(desc["rows"]), "predict: one column per missing variable, one row per data row",
                   detail=f"{list(res.columns)} x {len(res)}"):
        return
    for i, row in enumerate(desc["rows"]):
        star = {}
        for v in missing:
            got = res[nm[v]].iloc[i]
            names_v = C.expected_state_names(desc, v)
            if not M.check(any(got == n for n in names_v), "predict: returned value is a declared state name", detail=f"{v}: {got!r}"):
                return
            star[v] = [bool(got == n) for n in names_v].index(True)
        best = C.marginal(desc, jt, {**star, **row})
        for a in C.assignments(desc, missing):
            if a != star:
                M.le(C.marginal(desc, jt, {**a, **row}), best, "predict: row answer maximises the posterior given that row", detail=f"row {i} {row}: a*={star} beaten by {a}")


def run(desc, M):
    if desc.get("mode") == "predict":
        return run_predict(desc, M)
    from pgmpy.factors.discrete import TabularCPD
    from pgmpy.inference import BeliefPropagation, VariableElimination
    nodes, card = desc["nodes"], desc["card"]
    if desc["kind"] == "bn":
        names = C.sym_names(desc)
        virt = desc.get("virt")
        if virt:
            names = names + [f"lam{i}" for i in range(card[virt])]
        M.declare(names)
        tabs = C.make_tables(desc, M, positive=False)
        lam = [M.sym(f"lam{i}", lo=0, hi=1) for i in range(card[virt])] if virt else None
        jt = C.joint_table(desc, tabs)
        if lam:
            vi = nodes.index(virt)
            jt = {st: val * lam[st[vi]] for st, val in jt.items()}
        score = lambda a: C.marginal(desc, jt, {**a, **desc["ev"]})  # noqa
        model, nm = C.build_bn(desc, M, tabs)
    else:
        virt = desc.get("virt")
        M.declare(mn_names(desc) + ([f"lam{i}" for i in range(card[virt])] if virt else []))
        model, val0, _ = build_mn(desc, M)
        nm = {v: v for v in nodes}
        lam = [M.sym(f"lam{i}", lo=Fraction(1, 10), hi=1) for i in range(card[virt])] if virt else None
        val = (lambda a: val0(a) * lam[a[virt]]) if virt else val0
        rest = [v for v in nodes]
        score = lambda a: sum((val({**b, **a, **desc["ev"]}) for b in C.assignments(desc, [v for v in nodes if v not in a and v not in desc["ev"]])), M.const(0))  # noqa
    pe = score({})
    M.assume(pe > 0, "P(evidence) > 0")
    M.mark_pos(pe)
    evidence = {nm[e]: C.sname(desc, e, s) for e, s in desc["ev"].items()} or None
    qvars = [nm[v] for v in desc["q"]]
    kw = {}
    if virt:
        sn = C.state_names(desc.get("states", "default"), virt, card[virt])
        kw["virtual_evidence"] = [TabularCPD(nm[virt], card[virt], [[M.impl(x)] for x in lam], **({"state_names": {nm[virt]: sn}} if sn else {}))]
    if desc["engine"] == "bp":
        eng = BeliefPropagation(model)
        res = eng.map_query(qvars, evidence=evidence, show_progress=False, **kw)
    else:
        eng = VariableElimination(model)
        order = desc["order"]
        if order == "explicit":
            order = [nm[v] for v in nodes if v not in desc["q"] and v not in desc["ev"]][::-1]
        if desc["kind"] == "mn" and not virt:
            res = eng.map_query(qvars, evidence=evidence, elimination_order=order, show_progress=False)
        else:
            res = eng.map_query(qvars, evidence=evidence, elimination_order=order, show_progress=False, **kw)
    if not M.check(isinstance(res, dict) and set(res.keys()) == set(qvars) and len(res) == len(qvars), "exactly the requested variables are assigned",
                   detail=str(res)):
        return
    star = {}
    for v in desc["q"]:
        names_v = C.expected_state_names(desc, v)
        got = res[nm[v]]
        ok = M.check(any(got == n and type(got) == type(n) or got == n for n in names_v), "returned value is a declared state name", detail=f"{v}: {got!r}")
        if not ok:
            return
        star[v] = names_v.index(got)
    best = score(star)
    if M.symbolic:
        M.samples.append(f"MAP {star}: score(a*) >= score(a) for all a; score(a*) = {str(best)[:100]}")
    for a in C.assignments(desc, desc["q"]):
        if a == star:
            continue
        M.le(score(a), best, "returned assignment maximises the posterior", detail=f"a*={star} beaten by {a}")

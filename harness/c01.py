"""C01 - VariableElimination.query equals the conditional of the CPD-product joint (DESIGN.md 5/C01)."""
import itertools

from . import common as C

PROPERTY = "C01"
LEVEL = "model_checking"
BOUNDS = {
    "quick": "BN shapes <=4 nodes (15 curated), cards in {1,2,3}, all CPD entries symbolic >=0 (zeros inside), |Q|<=2, |E|<=1 "
             "+ <=1 virtual evidence, orders {greedy,MinFill,MinNeighbors,MinWeight,WeightedMinFill,explicit,None}, joint T/F, hash seeds 0,1",
    "thorough": "all DAGs on <=4 nodes in a fixed topological order, more cardinalities, |E|<=2, every explicit order (<=3 eliminated), hash seeds 0-5",
}
ASSUMPTIONS = [
    "exact real arithmetic (IEEE rounding outside the claim)",
    "P(evidence) > 0 (asserted before the query)",
    "CPD entries >= 0 with columns summing to 1 (free parametrisation: last row = 1 - sum)",
    "declared latent variables carry CPDs like every other node and are neither queried nor observed",
    "virtual-evidence likelihoods in [0,1]",
]
ORDERS = ["greedy", "MinFill", "MinNeighbors", "MinWeight", "WeightedMinFill", None, "explicit"]


def scenarios(tier, seed):
    out = []
    shapes = list(C.SHAPES.items())
    if tier == "thorough":
        shapes = shapes + [(f"dag4_{i}", s) for i, s in enumerate(C.all_dags(4)) if i % 3 == seed % 3]
    k = 0
    for sname, (nodes, parents) in shapes:
        cards = C.card_options(nodes, tier)
        for ci, card in enumerate(cards):
            qes = []
            for q in nodes:
                qes.append(([q], {}))
                for e in nodes:
                    if e != q:
                        qes.append(([q], {e: None}))
            for q in itertools.combinations(nodes, 2):
                qes.append((list(q), {}))
                for e in nodes:
                    if e not in q:
                        qes.append((list(q)[::-1], {e: None}))
            if len(nodes) == 4 and ci == 0:
                # three query variables (their remaining factors form a chain / share a hidden neighbour), listed in a scrambled order
                for q in itertools.combinations(nodes, 3):
                    qes.append(([q[1], q[2], q[0]], {}))
            if tier == "thorough":
                for q in nodes:
                    for e in itertools.combinations([x for x in nodes if x != q], 2):
                        qes.append(([q], {e[0]: None, e[1]: None}))
            for qi, (q, ev) in enumerate(qes):
                k += 1
                # rotate the configuration dimensions over scenarios
                order = ORDERS[k % len(ORDERS)]
                style = C.STATE_STYLES[k % len(C.STATE_STYLES)]
                names = list(C.NAME_STYLES)[(k // 3) % len(C.NAME_STYLES)]
                joint = (k // 2) % 2 == 0
                ev2 = {e: (k + i) % card[e] for i, e in enumerate(ev)}
                virt = None
                virt2 = None
                if k % 5 == 0:
                    cand = [x for x in nodes if x not in q and x not in ev2]
                    if cand:
                        virt = cand[k % len(cand)]
                        rest = [x for x in cand if x != virt]
                        if rest and k % 10 == 0:
                            virt2 = rest[0]
                        if k % 20 == 0 or (not rest and k % 10 == 0):
                            virt2 = virt   # two entries of the list on the SAME variable: the likelihoods multiply
                if tier == "quick" and ci > 0 and (k % 3):
                    continue
                nh = 2 if tier == "quick" else 6
                # declared latent variables (with CPDs) among the eliminated nodes: same joint, same answer
                lat = [x for x in nodes if x not in q and x not in ev2 and x != virt and x != virt2]
                lat = lat[: 1 + k % 2] if (k % 4 == 1 and lat) else []
                out.append(dict(latents=lat, family=f"ve.query/{sname}", nodes=nodes, parents=parents, card=card, q=q, ev=ev2, virt=virt, virt2=virt2, virt_factor=(k % 15 == 0),
                                order=order, joint=joint, states=style, names=names, hashseed=k % nh,
                                prune=(k % 7 != 0), cost=len(C.sym_names(dict(nodes=nodes, parents=parents, card=card)))))
    if tier == "thorough":
        # the full product does not fit the time budget: rotate a quarter of it by VERIF_SEED
        out = [d for i, d in enumerate(out) if i % 4 == seed % 4]
    # the model-level entry points over the same joint: predict_probability (row-wise VE) and get_state_probability
    for sname in ["pair", "chain3", "fork3", "collider3", "full3", "iso3", "diamond", "collchild", "twopairs"]:
        nodes, parents = C.SHAPES[sname]
        for card in C.card_options(nodes, tier)[:2 if tier == "quick" else 4]:
            for r in range(1, len(nodes)):
                for cols in itertools.combinations(nodes, r):
                    k += 1
                    if tier == "quick" and k % 3:
                        continue
                    rows = [{e: (k + i + j) % card[e] for i, e in enumerate(cols)} for j in range(2)]
                    rows.append(dict(rows[0]))
                    base = dict(nodes=nodes, parents=parents, card=card, states=C.STATE_STYLES[k % len(C.STATE_STYLES)], names=["str", "long"][k % 2],
                                hashseed=k % 2, cost=len(C.sym_names(dict(nodes=nodes, parents=parents, card=card))))
                    if len(nodes) == 4 and tier == "quick":
                        base.update(fixed_cpds=[nodes[(k + 1) % 4], nodes[(k + 2) % 4]], fixed_seed=k)
                    out.append(dict(base, family="bn.predict_probability", mode="pp", cols=list(cols), rows=rows))
                    out.append(dict(base, family="bn.get_state_probability", mode="gsp", cols=list(cols), rows=rows[:1]))
    return out


def run_model_level(desc, M):
    import pandas as pd
    M.declare(C.sym_names(desc))
    tabs = C.make_tables(desc, M, positive=False)
    jt = C.joint_table(desc, tabs)
    nodes, card = desc["nodes"], desc["card"]
    model, nm = C.build_bn(desc, M, tabs)
    cols = desc["cols"]
    if desc["mode"] == "gsp":
        row = desc["rows"][0]
        got = model.get_state_probability({nm[e]: C.sname(desc, e, s) for e, s in row.items()})
        M.eq(got, C.marginal(desc, jt, row), "get_state_probability equals the marginal of the CPD-product joint")
        return
    pes = []
    for row in desc["rows"]:
        pe = C.marginal(desc, jt, row)
        M.assume(pe > 0, "P(evidence row) > 0")
        M.mark_pos(pe)
        pes.append(pe)
    col_data = {}
    for e in cols:
        vals = [C.sname(desc, e, row[e]) for row in desc["rows"]]
        ser = pd.Series([None] * len(vals), index=[5, 7, 9][:len(vals)], dtype=object)
        for i, v in enumerate(vals):
            ser.iloc[i] = v
        col_data[nm[e]] = ser
    data = pd.DataFrame(col_data)
    res = model.predict_probability(data)
    missing = [v for v in nodes if v not in cols]
    want_cols = {f"{nm[v]}_{C.sname(desc, v, s)}" for v in missing for s in range(card[v])}
    M.check(set(res.columns) == want_cols, "predict_probability: one column per (missing variable, state name)", detail=str(list(res.columns)))
    M.check(list(res.index) == list(data.index), "predict_probability: index of the data kept", detail=str(list(res.index)))
    for i, row in enumerate(desc["rows"]):
        for v in missing:
            for s in range(card[v]):
                cn = f"{nm[v]}_{C.sname(desc, v, s)}"
                if cn in res.columns:
                    M.eq(res[cn].iloc[i] * pes[i], C.marginal(desc, jt, {**row, v: s}), "predict_probability: P(missing = state | row)")


def run(desc, M):
    if desc.get("mode") in ("pp", "gsp"):
        return run_model_level(desc, M)
    from pgmpy.factors.discrete import TabularCPD
    from pgmpy.inference import VariableElimination
    names = C.sym_names(desc)
    virt = desc.get("virt")
    virt2 = desc.get("virt2")
    if virt:
        names = names + [f"lam{i}" for i in range(desc["card"][virt])]
    if virt2:
        names = names + [f"mu{i}" for i in range(desc["card"][virt2])]
    M.declare(names)
    tabs = C.make_tables(desc, M, positive=False)
    lam = None
    lam2 = None
    if virt:
        lam = [M.sym(f"lam{i}", lo=0, hi=1) for i in range(desc["card"][virt])]
    if virt2:
        lam2 = [M.sym(f"mu{i}", lo=0, hi=1) for i in range(desc["card"][virt2])]
    jt = C.joint_table(desc, tabs)
    jt0 = jt
    nodes = desc["nodes"]
    if lam:
        vi = nodes.index(virt)
        jt = {st: val * lam[st[vi]] for st, val in jt.items()}
    if lam2:
        vi2 = nodes.index(virt2)
        jt = {st: val * lam2[st[vi2]] for st, val in jt.items()}
    pe = C.marginal(desc, jt, desc["ev"])
    M.assume(pe > 0, "P(evidence) > 0")
    M.mark_pos(pe)
    model, nm = C.build_bn(desc, M, tabs)
    ve = VariableElimination(model)
    evidence = {nm[e]: C.sname(desc, e, s) for e, s in desc["ev"].items()} or None
    order = desc["order"]
    elim = [v for v in nodes if v not in desc["q"] and v not in desc["ev"]]
    if order == "explicit":
        order = [nm[v] for v in elim][::-1]
    kw = {}
    if virt:
        sn = C.state_names(desc.get("states", "default"), virt, desc["card"][virt])
        if desc.get("virt_factor"):
            from pgmpy.factors.discrete import DiscreteFactor
            kw["virtual_evidence"] = [DiscreteFactor([nm[virt]], [desc["card"][virt]], [M.impl(x) for x in lam],
                                                     **({"state_names": {nm[virt]: sn}} if sn else {}))]
        else:
            kw["virtual_evidence"] = [TabularCPD(nm[virt], desc["card"][virt], [[M.impl(x)] for x in lam],
                                                 **({"state_names": {nm[virt]: sn}} if sn else {}))]
        if virt2:
            sn2 = C.state_names(desc.get("states", "default"), virt2, desc["card"][virt2])
            lam2_listed = list(lam2)
            if virt2 == virt:
                # the second entry for the same variable lists the states in a ROTATED order (a permutation that is not its own inverse for
                # three states): likelihoods are matched by state name, not by position
                k2 = desc["card"][virt2]
                rot = list(range(k2))[1:] + [0]
                sn2 = [(sn2 if sn2 else list(range(k2)))[i] for i in rot]
                lam2_listed = [lam2[i] for i in rot]
            kw["virtual_evidence"].append(TabularCPD(nm[virt2], desc["card"][virt2], [[M.impl(x)] for x in lam2_listed],
                                                     **({"state_names": {nm[virt2]: sn2}} if sn2 else {})))
    qvars = [nm[v] for v in desc["q"]]
    if desc.get("prune", True) or virt or order == "greedy":
        res = ve.query(qvars, evidence=evidence, elimination_order=order, joint=desc["joint"], show_progress=False, **kw)
    else:
        # unit level: no pruning ("whether or not irrelevant nodes are pruned first")
        ve._initialize_structures()
        if isinstance(order, list):
            pass
        res = ve._variable_elimination(qvars, "marginalize", evidence=evidence, elimination_order=order if order else None,
                                       joint=desc["joint"], show_progress=False)
    if virt and evidence and desc.get("prune", True):
        # the caller's evidence dict is reused for a plain query on a fresh engine: hard evidence only
        pe0 = C.marginal(desc, jt0, desc["ev"])
        M.assume(pe0 > 0, None)
        M.mark_pos(pe0)
        res0 = VariableElimination(model).query(qvars, evidence=evidence, joint=True, show_progress=False)
        check_factor(desc, M, nm, res0, desc["q"], jt0, pe0, "plain query reusing the evidence dict of a soft-evidence query")
    if desc["joint"]:
        check_factor(desc, M, nm, res, desc["q"], jt, pe, "joint")
    else:
        M.check(set(res.keys()) == set(qvars), "result keys", detail=f"{list(res.keys())}")
        for v in desc["q"]:
            if nm[v] in res:
                check_factor(desc, M, nm, res[nm[v]], [v], jt, pe, f"marg[{v}]")


def check_factor(desc, M, nm, phi, qs, jt, pe, tag):
    inv = {nm[v]: v for v in desc["nodes"]}
    ok = M.check(set(phi.variables) == {nm[v] for v in qs}, f"{tag}: scope", detail=f"{phi.variables}")
    if not ok:
        return
    for v in qs:
        M.check(list(phi.state_names[nm[v]]) == C.expected_state_names(desc, v), f"{tag}: state names[{v}]",
                detail=f"{phi.state_names[nm[v]]}")
    order = [inv[x] for x in phi.variables]
    M.check(tuple(phi.values.shape) == tuple(desc["card"][v] for v in order), f"{tag}: shape")
    first = True
    for a in C.assignments(desc, order):
        got = phi.get_value(**{str(nm[v]): C.sname(desc, v, s) for v, s in a.items()}) if all(isinstance(nm[v], str) for v in order) \
            else phi.values[tuple(phi.name_to_no[nm[v]][C.sname(desc, v, a[v])] for v in order)]
        want = C.marginal(desc, jt, {**a, **desc["ev"]})
        if first and M.symbolic:
            M.samples.append(f"result[{a}] * P(e) == sum joint : {str(got)[:120]}")
            first = False
        M.eq(got * pe, want, f"{tag}: value[{tuple(a.values())}]")

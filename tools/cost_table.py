"""Prints the measured-cost table (markdown) from the committed evidence files."""
import json, glob, os
print("| id | scenarios | paths | obligations (identity / solver / structural) | inconclusive | second solver (unsat re-checked: z3 4.8.12 / cvc5) | canaries refuted | wall |")
print("|---|---|---|---|---|---|---|---|")
for f in sorted(glob.glob("/verif/evidence/C*.json")):
    e = json.load(open(f)); c = e["coverage"]
    x = c.get("second_solver_recheck", {})
    v = x.get("verdicts", {})
    can = c.get("canaries", {})
    print(f"| {e['property_id']} | {c['scenarios_completed']}/{c['scenarios_enumerated']} | {c['states']} | {c['obligations']} ({c['discharged_by_identity']} / {c['discharged_by_solver_query']} / {c['structural_checks']}) | "
          f"{c['inconclusive']} + {c['undischarged_branches']} branches | {x.get('unsat_queries_resubmitted', 0)}: {v.get('z3-4.8.12', {}).get('unsat', 0)} / {v.get('cvc5-1.0', {}).get('unsat', 0)} | "
          f"{can.get('refuted_as_expected', 0)}/{can.get('checked', 0)} | {round(e['wall_s'])} s |")

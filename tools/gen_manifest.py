"""Generates /verif/MANIFEST.json from the table below (kept in one place so it stays valid)."""
import json
import os

VERIF = os.path.dirname(os.path.dirname(os.path.abspath(__file__)))
TECH = ("bounded symbolic execution of the real pgmpy code on object-dtype symbolic tensors (symx): path forks and "
        "obligations decided by z3 (nlsat/LRA), rational-function identities by canonical form; counterexamples replayed on float64")
BASE = ("Trusted base: z3 5.1, CPython, numpy shape/index/einsum machinery on object arrays (shared with the float path and "
        "cross-validated concretely per scenario), sympy polynomial arithmetic, the stubs listed in DESIGN.md 3.4. "
        "Exact real arithmetic: IEEE rounding is outside the claim. ")

CHECKS = {
    "C01": dict(text="Every VariableElimination.query scenario inside the bound is executed symbolically with ALL CPD entries as free "
                     "symbols (zeros included); each returned entry is shown equal to the conditional of the CPD-product joint for all "
                     "values at once (an identity of rational functions, or a z3 query when forms differ); result scope/state names checked. "
                     "Bounded model checking is the right level: the property quantifies over uncountably many tables, which the solver covers, "
                     "while structure is enumerated up to 4 nodes.",
                note="Bounds: <=4 nodes, cards<=3, |Q|<=2, |E|<=1 (+1 virtual evidence); P(e)>0 assumed; torch and rounding outside.",
                ref="5/C01"),
    "C04": dict(text="Each DiscreteFactor operation (product/sum/divide/marginalize/maximize/reduce/normalize/copy/==/get_value/assignment, "
                     "operator forms incl. scalars on either side, n-ary helpers, FactorSet/FactorDict) is run on factors whose entries are unconstrained symbolic reals over every listed "
                     "scope/axis order/state labeling; results are compared by named assignment with the textbook definition for all values; "
                     "operands are checked entry-identical and un-aliased after out-of-place calls.",
                note="Bounds: <=3 variables, cards<=3; in divide at most two divisor entries and two dividend entries may be zero/negative "
                     "(bounds the 0/0, x/0 case split).",
                ref="5/C04"),
}

CHECKS.update({
    "C02": dict(text="BeliefPropagation (junction-tree construction, calibrate, max_calibrate, out-of-clique query) is executed symbolically on "
                     "connected BN / MarkovNetwork / FactorGraph / JunctionTree models with all table entries symbolic and positive (2 symbolic CPDs "
                     "on 4-node BNs); clique and sepset beliefs are shown proportional to the (max-)marginals of the joint oracle, adjacent cliques "
                     "agree, and queries equal the conditional of the joint. Tolerance tests inside calibration fork on their exact numpy formula.",
                note="Bounds: <=4 variables, cards<=3, |Q|<=2, |E|<=1; entries >0; max-calibration only on <=3 binary variables.", ref="5/C02"),
    "C03": dict(text="VariableElimination.map_query (BN and MarkovNetwork) and BeliefPropagation.map_query run with all entries symbolic; the arg-max "
                     "forks on symbolic comparisons, and on every path z3 shows joint(a*,e) >= joint(a,e) for every alternative assignment a "
                     "(ties free); keys and state names checked.",
                note="Bounds: <=4 nodes (4-node BNs: 2 symbolic CPDs), query tables of <=4 (quick) / 9 (thorough) joint states, |E|<=1; max_marginal not covered.",
                ref="5/C03"),
    "C05": dict(text="TabularCPD construction, get_values, the labelled table export (to_csv rows), copy, to_factor, normalize, marginalize, reduce, reorder_parents (in/out of place) run on "
                     "symbolic 2-D tables for every parent permutation/subset; named conditionals, the 2-D layout and all state names are compared "
                     "with the defining formulas; is_valid_cpd and BayesianNetwork.check_model are explored with a symbolic column-sum error "
                     "against the tolerance band, and check_model on graphs wrong in exactly one respect.",
                note="Bounds: child + <=3 parents, cards<=3; positive entries for normalising operations.", ref="5/C05"),
    "C14": dict(text="BN->MarkovNetwork/JunctionTree, MarkovNetwork->FactorGraph/JunctionTree, FactorGraph->MarkovNetwork/JunctionTree run with all factor "
                     "entries symbolic, including lists with same-scope and possibly-equal factors (equality is a branch of the hash model): the product "
                     "of target factors equals the product of source factors for every named assignment, partition functions agree, and the target is "
                     "structurally valid (moral graph, tree, running intersection, scope cover); triangulation heuristics H1-H6/explicit orders "
                     "checked against the chord definition on concrete graphs <=5 nodes.",
                note="Bounds: <=4 variables (5 for triangulation), cards<=3. Two known findings (three keys) are listed in known_findings.txt.", ref="5/C14"),
})
CHECKS["C08"] = dict(
    text="(1) solver lemma: for ALL DAGs on n<=4 (5 thorough) nodes and all (x,y,Z) the Bayes-ball reachability encoding, the trail-based "
         "definition in the property statement and the moralised-ancestral criterion agree (edges are z3 Booleans). (2) lazy symbolic execution: "
         "pgmpy's real active_trail_nodes / is_dconnected / _get_ancestors_of / get_markov_blanket run on a DAG subclass whose predecessors/successors "
         "answer from symbolic edge Booleans; each path covers all graphs agreeing on the inspected edges and z3 proves result == definition for every "
         "completion. (3) eager: every DAG on <=4 nodes x labelings through get_independencies, local_independencies, minimal_dseparator (separates, "
         "minimal, latent-free), get_ancestral_graph, moralize, BayesianNetwork and NaiveBayes overrides against the same oracle.",
    note="Bounds: n<=4 (lemma/eager 5 in thorough). In eager mode the graph dimension is enumeration, not solver reasoning (DESIGN.md 3.5).",
    ref="5/C08")
CHECKS["C12"] = dict(
    text="The real PC.build_skeleton / skeleton_to_pdag / estimate (orig, stable, parallel with n_jobs=1; skeleton, pdag, dag) run with a conditional-"
         "independence oracle that answers by d-separation in an UNKNOWN acyclic graph whose edges are z3 Booleans; execution forks only on the answers, "
         "so paths are CI-answer patterns, and on each path z3 proves over ALL consistent graphs: skeleton = adjacency, recorded separating sets "
         "d-separate, every directed PDAG edge is compelled, every undirected edge is reversible (two sat queries), no directed cycle; a returned DAG "
         "satisfies every answer. The independencies= entry point and PDAG.to_dag (z3-decided extendability, brute-force cross-check) are explored eagerly.",
    note="Bounds: n<=4 (5 in thorough), max_cond_vars=n, hash seeds 0,1; statistical CI tests are the subject of C19. One known finding (thorough tier): the "
         "independencies= route inherits the closure defect recorded under C18 on >= 4 variables.", ref="5/C12")
CHECKS["C18"] = dict(
    text="(a) is_iequivalent/get_immoralities on all pairs of 3-node DAGs and same-skeleton 4-node pairs against skeleton+v-structures (cross-checked with "
         "the d-separation oracle); (b) Independencies.closure/entails/is_equivalent against the least model of a Horn-clause encoding of the semi-graphoid "
         "axioms, one z3 entailment query per candidate statement; (c) JointProbabilityDistribution.check_independence/get_independencies/is_imap/"
         "minimal_imap on symbolic joints (generic and product-form), the code's tolerance tests forking on numpy's exact formula.",
    note="Bounds: n<=4 DAGs, <=2 (3) assertions over <=4 variables, 2x2x2 joints. Two known findings (closure contraction rule, minimal_imap) are "
         "recognised precisely and listed in known_findings.txt.", ref="5/C18")
CHECKS["C11"] = dict(
    text="HillClimbSearch.estimate/_legal_operations (with and without ScoreCache) run against a table-driven StructureScore whose local scores are "
         "symbolic reals, so one run covers every data set inducing that comparison pattern; on every path z3 shows (linear arithmetic): result acyclic, "
         "over the data's variables, contains fixed edges, avoids black-listed and non-white-listed additions, respects max_indegree, score >= start, and "
         "- when the loop ended by the epsilon test with tabu disabled - no legal add/delete/flip improves by epsilon (symbolic epsilon). "
         "ExhaustiveSearch.estimate/all_scores: global maximality over all DAGs. TreeSearch._create_tree_and_dag on symbolic positive weights: "
         "spanning tree, directed away from the root, weight >= every spanning tree.",
    note="Bounds: HillClimb n=3, max_iter<=3 (thorough n=4 max_iter<=2); Exhaustive n=2 all-symbolic, n=3 with 4 symbolic scores; Chow-Liu n<=4. "
         "Mutual-information computation (sklearn) is outside. networkx.from_pandas_adjacency and math.isnan are stubbed for symbolic weights.",
    ref="5/C11")
CHECKS["C13"] = dict(
    text="BayesianNetwork.do/DAG.do and CausalInference.query (ve and bp back-ends; default adjustment set, every enumerated back-door set, the minimal "
         "set) run with all CPD entries symbolic; each returned entry is shown equal to the truncated factorisation written from the harness's own "
         "symbols; do() is checked edge-by-edge and entry-by-entry (other CPDs untouched, original untouched). The back-door/front-door validity "
         "tests and enumerations are compared, on every DAG with <=4 nodes and every (X,Y,Z among non-descendants), with the path-based criterion "
         "evaluated by the d-separation oracle on the graph with X's outgoing edges removed.",
    note="Bounds: <=4 nodes, do-sets of size <=2, positive entries, string node names; two recorded known findings (joint interventions; minimal "
         "adjustment set containing a mediator under a latent confounder).", ref="5/C13")
CHECKS["C15"] = dict(
    text="One (quick: also sampled two-) step exploration from every enumerated valid base state: BayesianNetwork over <=3 nodes with symbolic CPD "
         "tables, every editing operation with valid and invalid arguments; after each step: no directed cycle, a rejected single operation left nodes/"
         "edges/latents/CPD entries identical, after remove_node/do every remaining CPD has scope node+graph parents and every column sums to one FOR ALL "
         "table values (identity of rational functions), copy/original isolation in every mutable dimension. DynamicBayesianNetwork, JunctionTree, "
         "MarkovNetwork and DAG construction with concrete single operations.",
    note="Bounds: bases <=3 nodes, histories of length <=2 (3 sampled in thorough). Unbounded histories only by the informal inductive argument.",
    ref="5/C15")
CHECKS["C17"] = dict(
    text="DBNInference.forward_inference / backward_inference / query run on two-slice templates (one or two interface nodes, intra and inter edges, "
         "cards 2-3) with 1-2 (HMM: all) CPDs symbolic; every returned marginal times P(evidence) is shown equal to the corresponding sum over the "
         "unrolled network's joint, written directly from the template symbols (slice-0 CPDs once, transition CPDs T times). get_constant_bn and "
         "initialize_initial_state are compared entry-wise by assignment with the template CPDs.",
    note="Bounds: <=3 variables per slice, T<=3 (4 thorough), evidence in <=2 slices, positive entries. Two recorded known findings concern the "
         "backward pass; forward inference is checked without exceptions.", ref="5/C17")
CHECKS["C16"] = dict(
    text="On ONE VariableElimination / BeliefPropagation / CausalInference engine, sequences of questions (query, joint=False, MAP, virtual evidence, "
         "evidence) run with all CPD entries symbolic: every answer in the sequence is shown equal to the joint oracle (= a fresh engine's answer) for "
         "all table values, and the model handed to the engine is entry-identical (same objects) after every call. The same question under permuted "
         "node/edge/CPD insertion orders, 4 node-name and 6 state-name styles and two hash seeds is compared with the same oracle after relabelling. "
         "Scoring, estimation, structure search, conversion, export and sampling calls are checked for input purity and repeatability on concrete inputs. "
         "PC-stable runs with an ARBITRARY conditional-independence oracle (one free Boolean per question, lazily forked): its skeleton is shown "
         "independent of the order in which the variables are listed, for every answer pattern on 3 variables and a bounded exploration on 4.",
    note="Bounds: <=4 nodes, sequences of length 3 (4 thorough); torch backend and dtype switching are outside the claim.", ref="5/C16")
CHECKS["C10"] = dict(
    text="(a) StructureScore.score, ScoreCache.score/local_score/structure_prior(_ratio), the BDs structure prior and metrics-level scoring run with one "
         "symbolic real per (variable, parent set) on every 3-node DAG: score = sum of local scores + prior, cached = uncached. (b) the real K2Score/"
         "BDeuScore/BicScore/AICScore.local_score bodies run on a SYMBOLIC count table (every support pattern with an unobserved parent configuration "
         "and/or a declared-but-unobserved child state), log-gamma/log as uninterpreted functions and a symbolic equivalent sample size; the result is "
         "shown equal (congruence + arithmetic) to the published closed form written with the same uninterpreted functions, for every parent listing "
         "order; BDeu/BIC/AIC score equivalence of X->Y and Y->X from one symbolic joint count table. Every scenario is re-run on a real pandas frame "
         "with integer counts and the real special functions (concrete twin), which validates the count-table stub.",
    note="Partial: numeric values of gammaln/log and pandas counting itself are outside the solver claim (covered only by the concrete twin); the Gaussian "
         "scores are not claimed; BDs is compared with Scutari's definition (one recorded known finding). Bounds: child with <=2 parents, cards<=3.", ref="5/C10")
CHECKS["C06"] = dict(
    text="The weighted estimation path (BaseEstimator.state_counts through pandas groupby/sum/unstack/reindex/fillna, MaximumLikelihoodEstimator, "
         "BayesianEstimator with K2 / BDeu / Dirichlet priors, BayesianNetwork.fit and fit_update) runs with a SYMBOLIC weight per data row, symbolic "
         "pseudo-counts, equivalent sample size, previous CPDs and previous sample size; every estimated entry, addressed by declared state NAME, is shown "
         "equal to the closed form (weighted count / total, uniform for unseen parent configurations, (count+alpha)/(total+sum alpha)) for all weights. "
         "The unweighted counting path is compared with the same closed form on enumerated concrete frames, including row/column permutations.",
    note="Partial: EM (likelihood monotonicity), n_jobs>1 and the unweighted pandas counting itself are outside the solver claim. Bounds: <=3 columns, "
         "cards<=3, design frames with <=1 row per joint configuration, weights strictly increasing along the row index.", ref="5/C06")
CHECKS["C07"] = dict(
    text="(a) GibbsSampling kernels built from Bayesian and Markov networks with all entries symbolic: kernel[var][others][s] * sum_s' joint = joint for "
         "every configuration and state-name style. (b) BayesianModelSampling.forward_sample / rejection_sample / likelihood_weighted_sample run on the "
         "real float backend with numpy's random choice replaced by inverse-CDF sampling over fresh SYMBOLIC uniforms: every path is one sample frame whose "
         "path condition is a box in uniform-space; per path: row count, declared state names, zero-probability states infeasible, evidence fixed, latent "
         "columns, partial samples, likelihood weight; across all paths (exhaustive for size 1): the exact rational volume of the boxes yielding x equals "
         "P(x) (forward), P(x,e) (first-round rejection), the proposal (likelihood weighting). Law violations are replayed statistically on the real "
         "generator; seed reproducibility is checked concretely.",
    note="Partial: large-sample convergence, HMC/NUTS, simulate() and missingness are outside. Bounds: <=4 nodes, sample size <=2, <=14 draws per path.",
    ref="5/C07")
CHECKS["C09"] = dict(
    text="BIF, XMLBIF and UAI writers (and BayesianNetwork.save/load) run on models whose table entries are distinct SYMBOLS; the writer prints each symbol "
         "as a unique numeral token, the reader (on the plain float backend) parses the text, and for every named assignment the re-read number must be "
         "the token of the symbol originally stored there - so a transposed reshape, a permuted parent order or a mis-assigned state list is found for "
         "all table values at once. Variables, edges and state names are compared as strings (positional names for UAI). A concrete twin covers "
         "magnitudes 1e-12..1, exact 0/1 and tables with 3888 entries.",
    note="Partial: this is symbolic execution with token tracing - obligations are discharged by symbol identity, no solver query is needed; the text layer "
         "itself (regular expressions, pyparsing, ElementTree, float formatting) and the NET format are outside. Three recorded known findings.",
    technique="symbolic execution of the real writer code on symbolic table entries with numeral-token tracing through the real reader (symx); obligations "
              "are symbol-identity checks (no SMT query arises); concrete twin for the text layer",
    ref="5/C09")
CHECKS["C20"] = dict(
    text="LinearGaussianBayesianNetwork.to_joint_gaussian and predict, GaussianDistribution.marginalize/reduce/copy/to_canonical_factor and "
         "CanonicalDistribution.product (K and h added by variable name over the union scope) run with symbolic intercepts, "
         "coefficients, positive variances and observed values on every DAG with <=3 nodes and every observed/missing split; numpy's inverse is replaced "
         "by symbolic Gauss-Jordan elimination. Results are compared entry-wise (identities of rational functions) with an independent oracle: means by "
         "recursive substitution, covariances by the structural-equation recursion, conditionals through a cofactor inverse.",
    note="Partial: fit (least squares via sklearn), simulate, pdf values, canonical marginalise/reduce, LAPACK itself and the 8-decimal rounding are "
         "outside; in the canonical constant g log and sqrt(det) are uninterpreted. Bounds: <=3 nodes (4 thorough).", ref="5/C20")

CHECKS["C19"] = dict(
    text="pgmpy's own part of the discrete tests - argument handling, stratification by the conditioning variables, construction of each stratum's "
         "contingency table (unique/inverse index arithmetic and reshape), accumulation of statistic and degrees of freedom, p-value and boolean verdict in "
         "power_divergence and its wrappers chi_square / g_sq / log_likelihood / modified_log_likelihood - runs symbolically on a frame that holds one row "
         "per occupied cell with a SYMBOLIC positive multiplicity, i.e. on every data set with that support at once; the results are shown equal, for all "
         "multiplicities and every lambda, to the documented stratified power-divergence test written from the multiplicities, symmetric in X and Y, "
         "invariant to row/column order and to the order of the conditioning variables, zero with p-value one on product-form (exactly independent) "
         "tables, verdict = (p >= symbolic significance level). The partial-correlation test runs on symbolic X and Y columns: its coefficient (r^2 and "
         "sign) is shown equal to the Pearson correlation of OLS residuals and invariant under symbolic shifts and positive rescalings.",
    note="Partial: numpy's counting, scipy.stats.chi2_contingency / chi2.cdf / pearsonr and numpy.linalg.lstsq are MODELS here (documented algorithm over "
         "symbolic counts; log, non-integer powers, the chi-square CDF and the correlation p-value are uninterpreted functions); the models are validated "
         "against the real compiled kernels by the concrete twin of every scenario (integer multiplicities, real scipy), not by the solver. Numeric values "
         "of the special functions, pillai_trace and floating-point rounding are outside. Bounds: X,Y <=3 states, <=2 conditioning variables, <=6 rows for "
         "the partial-correlation test with concrete conditioning columns.", ref="5/C19")

NOT_APPLICABLE = {
}


def main():
    props = [json.loads(l) for l in open(os.path.join(VERIF, "properties.jsonl"))]
    ids = [p["id"] for p in props]
    checks = []
    for pid in ids:
        if pid not in CHECKS:
            continue
        c = CHECKS[pid]
        checks.append(dict(
            property_id=pid,
            quick_cmd=f"./check {pid} --tier quick",
            thorough_cmd=f"./check {pid} --tier thorough",
            evidence_file=f"/verif/evidence/{pid}.json",
            replay_cmd_template=f"./check {pid} --replay {{path}}",
            engine="symx",
            level_claimed=dict(category=c.get("category", "model_checking"), text=c["text"], design_ref="DESIGN.md section " + c["ref"]),
            level_note=BASE + c["note"],
            technique=c.get("technique", TECH),
        ))
    na = [dict(property_id=p, reason=NOT_APPLICABLE.get(p, "check not built yet in this round (see DESIGN.md); not claimed"))
          for p in ids if p not in CHECKS]
    man = dict(
        version=1,
        setup_cmd="./setup.sh",
        hooks=dict(guard="PGMPY_VERIF", enable="no source hooks: stubs are installed on module attributes by the harness at run time "
                                               "(checks export PGMPY_VERIF=1 for uniformity; pgmpy never reads it)",
                   baseline_off_cmd="cd /repo && /venv/bin/python -m pytest -ra -q -p no:cacheprovider --timeout=900 --continue-on-collection-errors",
                   source_commits=[], add_only=True),
        engines=[dict(name="symx", path="/verif/symx", serves_properties=sorted(CHECKS),
                      kind_free_text="z3-driven symbolic executor over the real pgmpy/numpy code (object-dtype symbolic scalars, "
                                     "re-execution per decision prefix), with concrete float64 replay")],
        checks=checks,
        notes="See DESIGN.md. Fix commits in /repo are listed in known_findings.txt.",
        not_applicable=na,
    )
    with open(os.path.join(VERIF, "MANIFEST.json"), "w") as f:
        json.dump(man, f, indent=1)
    print("wrote MANIFEST.json with", len(checks), "checks;", len(na), "not claimed")


if __name__ == "__main__":
    main()

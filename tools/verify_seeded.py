"""Re-verifies every kept seeded change against the current /repo HEAD: patch applies with plain `git apply`, demo exits 0 on the clean tree and
non-zero with the patch.  usage: verify_seeded.py [substr]   (4 parallel scratch worktrees under /tmp)"""
import json, os, subprocess, sys
from concurrent.futures import ThreadPoolExecutor

sel = sys.argv[1] if len(sys.argv) > 1 else ""
names = sorted(n for n in os.listdir("/verif/seeded") if not n.startswith("_") and os.path.isdir(f"/verif/seeded/{n}") and sel in n)


def one(args):
    i, n = args
    d = f"/verif/seeded/{n}"
    w = f"/tmp/vs_{i % 4}_{n}"
    subprocess.run(["git", "-C", "/repo", "worktree", "remove", "--force", w], capture_output=True)
    subprocess.run(["git", "-C", "/repo", "worktree", "add", "-q", "--detach", w, "HEAD"], check=True)
    env = dict(os.environ, PYTHONPATH=w, OMP_NUM_THREADS="1", LOKY_MAX_CPU_COUNT="2", PYTHONWARNINGS="ignore")
    try:
        c = subprocess.run(["/venv/bin/python", f"{d}/demo.py"], cwd=w, env=env, capture_output=True, text=True, timeout=1500).returncode
        ap = subprocess.run(["git", "apply", f"{d}/patch.diff"], cwd=w, capture_output=True, text=True)
        m = None
        if ap.returncode == 0:
            m = subprocess.run(["/venv/bin/python", f"{d}/demo.py"], cwd=w, env=env, capture_output=True, text=True, timeout=1500).returncode
    except subprocess.TimeoutExpired:
        c, m, ap = "timeout", "timeout", None
    subprocess.run(["git", "-C", "/repo", "worktree", "remove", "--force", w], capture_output=True)
    ok = c == 0 and ap is not None and ap.returncode == 0 and m not in (0, None, "timeout")
    return n, c, (ap.returncode if ap is not None else None), m, ok


with ThreadPoolExecutor(4) as ex:
    bad = 0
    for n, c, a, m, ok in ex.map(one, enumerate(names)):
        print(("ok  " if ok else "BAD ") + f"{n}: clean demo exit {c}, apply {a}, mutant demo exit {m}", flush=True)
        bad += 0 if ok else 1
print("verified", len(names), "bad", bad)

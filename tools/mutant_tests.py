"""Runs the pinned test-suite on /repo HEAD + one candidate patch (scratch worktree) and reports stable-pass tests that do not pass.
usage: mutant_tests.py <name> <dir> [<name> <dir> ...]      writes /tmp/mut/tests_<name>.log (first line = verdict)
Uses pytest-xdist (-n 4) with LOKY_MAX_CPU_COUNT=2; tests that fail under xdist are re-run alone before they count (a few tests are
sampling-based and unseeded)."""
import json
import os
import subprocess
import sys
import tempfile
import xml.etree.ElementTree as ET

base = json.load(open("/root/.vp/BASELINE.json"))
stable = set(base["stable_pass"])
args = sys.argv[1:]
for name, d in zip(args[0::2], args[1::2]):
    w = f"/tmp/mt_{name}"
    subprocess.run(["git", "-C", "/repo", "worktree", "remove", "--force", w], capture_output=True)
    subprocess.run(["rm", "-rf", w])
    subprocess.run(["git", "-C", "/repo", "worktree", "add", "-q", "--detach", w, "HEAD"], check=True)
    ap = subprocess.run(["git", "apply", "--3way", os.path.join(d, "patch.diff")], cwd=w, capture_output=True, text=True)
    log = f"/tmp/mut/tests_{name}.log"
    if ap.returncode != 0:
        open(log, "w").write("patch does not apply to HEAD\n" + ap.stderr)
        subprocess.run(["git", "-C", "/repo", "worktree", "remove", "--force", w], capture_output=True)
        print(name, "PATCH DOES NOT APPLY", flush=True)
        continue
    env = dict(os.environ, PYTHONPATH=w, OMP_NUM_THREADS="1", MKL_NUM_THREADS="1", OPENBLAS_NUM_THREADS="1", LOKY_MAX_CPU_COUNT="2")
    env.pop("PGMPY_VERIF", None)
    out = tempfile.mktemp(suffix=".xml")
    subprocess.run(["/venv/bin/python", "-m", "pytest", "-q", "-p", "no:cacheprovider", "--timeout=900", "--continue-on-collection-errors", "-n", "4",
                    f"--junitxml={out}"], cwd=w, env=env, stdout=subprocess.DEVNULL, stderr=subprocess.DEVNULL)
    passed, seen = set(), set()
    try:
        for tc in ET.parse(out).getroot().iter("testcase"):
            nm = f"{tc.get('classname')}::{tc.get('name')}"
            seen.add(nm)
            if not any(c.tag in ("failure", "error", "skipped") for c in tc):
                passed.add(nm)
    except Exception as e:  # noqa
        open(log, "w").write(f"test run failed: {e}\n")
        print(name, "TEST RUN FAILED", e, flush=True)
        continue
    bad = sorted(stable - passed)
    still = []
    for b in bad:   # re-run alone (flaky under xdist / load)
        cls, meth = b.split("::")
        parts = cls.split(".")
        path = "/".join(parts[:-1]) + ".py::" + parts[-1] + "::" + meth
        ok = False
        for _ in range(3):   # a few tests are sampling-based and unseeded: up to three attempts alone
            r = subprocess.run(["/venv/bin/python", "-m", "pytest", "-q", "-p", "no:cacheprovider", "--timeout=900", path], cwd=w, env=env, capture_output=True, text=True)
            if r.returncode == 0:
                ok = True
                break
        if not ok:
            still.append(b)
    verdict = f"ran {len(seen)} tests, {len(passed)} passed; stable-pass tests not passing: {len(still)} (failed under xdist but passed alone: {len(bad) - len(still)})"
    open(log, "w").write(verdict + "\n" + "\n".join(still) + "\n")
    print(name, verdict, still[:5], flush=True)
    subprocess.run(["git", "-C", "/repo", "worktree", "remove", "--force", w], capture_output=True)
    subprocess.run(["rm", "-rf", w, out])

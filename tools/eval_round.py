"""Evaluates candidate seeded changes: tools/eval_round.py <PROP> <dir> [<PROP> <dir> ...]
For each: scratch worktree of /repo HEAD; demo on clean tree (must exit 0); apply patch; demo (must exit 1); run the related quick checks with
VERIF_REPO pointing at the patched tree; remove the worktree.  Appends one JSON line per candidate to /tmp/mut/results.jsonl."""
import json
import os
import subprocess
import sys
import time

RELATED = {"C01": ["C01", "C03", "C16"], "C02": ["C02", "C14"], "C03": ["C03", "C01", "C02"], "C04": ["C04", "C01", "C02"], "C05": ["C05"], "C06": ["C06"],
           "C07": ["C07"], "C08": ["C08"], "C09": ["C09"], "C10": ["C10"], "C11": ["C11"], "C12": ["C12"], "C13": ["C13"], "C14": ["C14", "C02"],
           "C15": ["C15"], "C16": ["C16", "C01"], "C17": ["C17"], "C18": ["C18"], "C19": ["C19"], "C20": ["C20"]}
args = sys.argv[1:]
for prop, d in zip(args[0::2], args[1::2]):
    checks_override = None
    if "=" in prop:   # C16=C16,C04 : run these checks instead of the default related ones
        prop, cl = prop.split("=")
        checks_override = cl.split(",")
    name = prop + "_" + os.path.basename(d.rstrip("/"))
    w = f"/tmp/ev_{name}"
    subprocess.run(["git", "-C", "/repo", "worktree", "remove", "--force", w], capture_output=True)
    subprocess.run(["rm", "-rf", w])
    subprocess.run(["git", "-C", "/repo", "worktree", "add", "-q", "--detach", w, "HEAD"], check=True)
    env = dict(os.environ, PYTHONPATH=w, OMP_NUM_THREADS="1", LOKY_MAX_CPU_COUNT="2", PYTHONWARNINGS="ignore")
    rec = dict(name=name, prop=prop, dir=d)
    t = time.time()
    p = subprocess.run(["/venv/bin/python", os.path.join(d, "demo.py")], cwd=w, env=env, capture_output=True, text=True, timeout=1800)
    rec["demo_clean"] = p.returncode
    ap = subprocess.run(["git", "apply", "--3way", os.path.join(d, "patch.diff")], cwd=w, capture_output=True, text=True)
    rec["apply"] = ap.returncode
    if ap.returncode == 0:
        rec["files"] = subprocess.run(["git", "diff", "--stat"], cwd=w, capture_output=True, text=True).stdout.strip().splitlines()[:-1]
        p = subprocess.run(["/venv/bin/python", os.path.join(d, "demo.py")], cwd=w, env=env, capture_output=True, text=True, timeout=1800)
        rec["demo_mut"] = p.returncode
        rec["demo_tail"] = (p.stdout + p.stderr)[-400:]
        rec["checks"] = {}
        for chk in checks_override or RELATED.get(prop, [prop]):
            e2 = dict(os.environ, VERIF_REPO=w)
            q = subprocess.run(["./check", chk, "--tier", "quick", "--no-evidence"], cwd="/verif", env=e2, capture_output=True, text=True)
            lines = q.stdout.splitlines()
            vio = [l for l in lines if l.startswith("VIOLATION")]
            keys = [l.strip()[:300] for l in lines if l.startswith("  key=")]
            rec["checks"][chk] = dict(exit=q.returncode, violations=len(vio), keys=keys[:4], summary=[l for l in lines if l.startswith(chk + " quick")][:1])
    rec["wall"] = round(time.time() - t)
    subprocess.run(["git", "-C", "/repo", "worktree", "remove", "--force", w], capture_output=True)
    with open(os.environ.get("EVAL_OUT", "/tmp/mut/results.jsonl"), "a") as f:
        f.write(json.dumps(rec) + "\n")
    print(name, "clean", rec.get("demo_clean"), "mut", rec.get("demo_mut"), {k: (v["exit"], v["violations"]) for k, v in rec.get("checks", {}).items()}, flush=True)

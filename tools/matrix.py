"""Runs the quick checks against every kept seeded change (scratch worktree of /repo HEAD + patch, VERIF_REPO) and records which checks
report a VIOLATION.  Writes /verif/seeded/MATRIX.md and updates caught_by in each meta.json.  usage: matrix.py [mutant-name-substring]"""
import json
import os
import subprocess
import sys

RELATED = {"C01": ["C01", "C03", "C16"], "C02": ["C02", "C14"], "C03": ["C03", "C01", "C02"], "C04": ["C04", "C01", "C02"], "C05": ["C05"], "C06": ["C06"],
           "C07": ["C07"], "C08": ["C08"], "C09": ["C09"], "C10": ["C10"], "C11": ["C11"], "C12": ["C12"], "C13": ["C13"], "C14": ["C14", "C02"],
           "C15": ["C15"], "C16": ["C16", "C01"], "C17": ["C17"], "C18": ["C18"], "C20": ["C20"]}
sel = sys.argv[1] if len(sys.argv) > 1 else ""
rows = []
for name in sorted(os.listdir("/verif/seeded")):
    d = os.path.join("/verif/seeded", name)
    if not os.path.isdir(d) or sel not in name or name.startswith("_"):
        continue
    meta = json.load(open(os.path.join(d, "meta.json")))
    w = f"/tmp/mx_{name}"
    subprocess.run(["git", "-C", "/repo", "worktree", "remove", "--force", w], capture_output=True)
    subprocess.run(["git", "-C", "/repo", "worktree", "add", "-q", "--detach", w, "HEAD"], check=True)
    ap = subprocess.run(["git", "apply", "--3way", os.path.join(d, "patch.diff")], cwd=w, capture_output=True, text=True)
    res = {}
    if ap.returncode != 0:
        res = {"apply": "FAILED"}
    else:
        for chk in RELATED.get(meta["property"], [meta["property"]]):
            env = dict(os.environ, VERIF_REPO=w)
            p = subprocess.run(["./check", chk, "--tier", "quick", "--no-evidence"], cwd="/verif", env=env, capture_output=True, text=True)
            nv = sum(1 for l in p.stdout.splitlines() if l.startswith("VIOLATION"))
            res[chk] = nv
    subprocess.run(["git", "-C", "/repo", "worktree", "remove", "--force", w], capture_output=True)
    caught = [c for c, v in res.items() if isinstance(v, int) and v > 0]
    meta["caught_by"] = caught
    meta["matrix_run"] = res
    json.dump(meta, open(os.path.join(d, "meta.json"), "w"), indent=1)
    rows.append((name, meta["property"], res, caught))
    print(name, res, flush=True)
with open("/verif/seeded/MATRIX.md", "a" if sel else "w") as f:
    if not sel:
        f.write("| seeded change | property | quick checks run (violations reported) | caught by |\n|---|---|---|---|\n")
    for name, prop, res, caught in rows:
        f.write(f"| {name} | {prop} | {', '.join(f'{k}:{v}' for k, v in res.items())} | {', '.join(caught) or '**none**'} |\n")

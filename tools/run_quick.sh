#!/bin/bash
# runs every check's quick tier once, sequentially, and prints one summary line per property (exit code, wall time, summary line)
# usage: [VERIF_SEED=k] [NOEV=1] tools/run_quick.sh [ids...]
cd /verif
mkdir -p /tmp/quick
for p in ${@:-C01 C02 C03 C04 C05 C06 C07 C08 C09 C10 C11 C12 C13 C14 C15 C16 C17 C18 C19 C20}; do
  s=$(date +%s)
  ./check $p --tier quick ${NOEV:+--no-evidence} > /tmp/quick/$p.out 2>&1
  rc=$?
  e=$(date +%s)
  echo "$p exit=$rc wall=$((e-s))s $(grep -E "^$p quick" /tmp/quick/$p.out | cut -c1-300)"
  grep -E "^VIOLATION|harness error|^  key" /tmp/quick/$p.out | head -6 | cut -c1-300
done

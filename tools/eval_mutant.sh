#!/bin/bash
# usage: eval_mutant.sh <PROP> <mutdir> [check ids...]   - evaluates a candidate seeded change in a scratch worktree of /repo HEAD
# 1) patch applies  2) demo passes on clean HEAD, fails with patch  3) our checks (pointed at the scratch tree via VERIF_REPO)
# The full test-suite comparison is run separately (tools/mutant_tests.sh) because it takes 10+ minutes.
P=$1; D=$2; shift 2; CHECKS="${@:-$P}"
W=/tmp/ev_$(basename $(dirname $D))_$(basename $D)
git -C /repo worktree remove --force $W 2>/dev/null; rm -rf $W
git -C /repo worktree add -q --detach $W HEAD || exit 2
cd $W
echo "== clean demo"; PYTHONPATH=$W OMP_NUM_THREADS=1 timeout 600 /venv/bin/python $D/demo.py >/tmp/ev_clean.log 2>&1; echo "exit $?"
if ! git apply --3way $D/patch.diff 2>/tmp/ev_apply.log; then echo "PATCH DOES NOT APPLY"; cat /tmp/ev_apply.log; exit 2; fi
git diff --stat | tail -1
echo "== mutant demo"; PYTHONPATH=$W OMP_NUM_THREADS=1 timeout 600 /venv/bin/python $D/demo.py >/tmp/ev_mut.log 2>&1; echo "exit $?"; tail -3 /tmp/ev_mut.log
for c in $CHECKS; do
  echo "== check $c on mutant"
  (cd /verif && VERIF_REPO=$W ./check $c --tier quick --no-evidence 2>&1 | grep -E "^VIOLATION|^KNOWN|^$c quick|harness error" | cut -c1-260 | head -8)
done
echo "worktree left at $W (for the test-suite run); remove with: git -C /repo worktree remove --force $W"

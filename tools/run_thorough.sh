#!/bin/bash
# runs every check's thorough tier once, sequentially; keeps the summary lines (evidence files are left to the quick tier)
cd /verif
for p in "$@"; do
  s=$(date +%s)
  ./check $p --tier thorough --no-evidence > /tmp/thorough_$p.out 2>&1
  rc=$?
  e=$(date +%s)
  { echo "exit=$rc wall=$((e-s))s"; grep -E "^VIOLATION|^KNOWN-FINDING|^  key|^note|^$p thorough" /tmp/thorough_$p.out | cut -c1-400; } > thorough_logs/$p.txt
done

"""Copies the confirmed round-2 seeded changes into /verif/seeded/<ID>_<tag>/ (patch.diff, demo.py, notes.md, meta.json).
Reads /tmp/mut/results*.jsonl (tools/eval_round.py), /tmp/mut/tests_<name>.log (tools/mutant_tests.py) and the table below."""
import json, os, shutil, subprocess, sys

T = {  # name: (source dir, property, needs, caught_by, missed_at_first, note)
 "C01_A_OBSOLETE": ("/tmp/mut/C01/A_obsolete_see_seeded__obsolete", "C01", "two virtual-evidence queries with different likelihoods for one variable on ONE inference object", ["C16"], False, "C01 itself asks one question per scenario"),
 "C02_A": ("/tmp/mut/C02/A", "C02", "Markov network holding two value-equal factors on one scope", ["C14", "C02"], True, "C02 missed it on arrival (C14 caught it); mdup networks added to C02"),
 "C02_B": ("/tmp/mut/C02/B", "C02", "potentials of magnitude ~1e-9 (all message entries below the absolute tolerance of DiscreteFactor.__eq__)", ["C02", "C14"], False, ""),
 "C03_A": ("/tmp/mut/C03/A", "C03", "moral graph with a chordless cycle of length >= 5 (>= 6-node BN) and an elimination order walking along it", ["C02", "C14"], False, "the change is in triangulate(); C03 has no 5-cycle scenario"),
 "C03_B": ("/tmp/mut/C03/B", "C03", "two value-equal factors whose scope lies inside the query variables (replicated sensor CPDs observed in the same state)", ["C03", "C01"], False, ""),
 "C04_A": ("/tmp/mut/C04/A", "C04", "factor over >= 9 variables, maximisation leaving <= 4 of them incl. one at axis position >= 8", ["C04"], True, "wide factors added"),
 "C04_B_DROPPED": ("/tmp/mut/C04/B_dropped_breaks_3_ApproxInference_tests", "C04", "variable with >= 3 states whose two state orders differ by a non-involutive permutation (3-cycle)", ["C04"], True, "rotated state orders added"),
 "C05_A": ("/tmp/mut/C05/A", "C05", "CPD with >= 3 parents reduced on a middle parent, table that needs normalising", ["C05"], False, ""),
 "C05_B": ("/tmp/mut/C05/B", "C05", "child CPD lists a parent's states in another order than the parent's own CPD", ["C05"], False, ""),
 "C06_A": ("/tmp/mut/C06/A", "C06", "MLE for a node with parents whose state_names are declared in non-sorted order", ["C06"], False, ""),
 "C06_B": ("/tmp/mut/C06/B", "C06", "latent-class model wide enough that P(row, latent) < 1e-10 (>= 12 four-state indicators)", ["C06"], True, "wide EM concrete twin added"),
 "C07_A": ("/tmp/mut/C07/A", "C07", "likelihood weighting with evidence on a node and ALL of its >= 2 parents (non-palindromic parent states)", ["C07"], True, "whole-family evidence added"),
 "C07_B": ("/tmp/mut/C07/B", "C07", "GibbsSampling.sample(seed=0)", ["C07"], False, ""),
 "C08_A": ("/tmp/mut/C08/A", "C08", "local_independencies for a list of >= 2 variables", ["C08"], True, "multi-variable lists added"),
 "C08_B": ("/tmp/mut/C08/B", "C08", "two stacked latent variables above an endpoint", ["C08"], False, ""),
 "C09_A": ("/tmp/mut/C09/A", "C09", "UAI model with a cardinality >= 10 next to a one-digit cardinality", ["C09"], True, "two-digit cardinalities added"),
 "C09_B": ("/tmp/mut/C09/B", "C09", "BIF model with a variable or state named exactly 'default' or 'table'", ["C09"], True, "keyword names added"),
 "C10_A": ("/tmp/mut/C10/A", "C10", "BIC with a declared-but-unobserved child state and a non-empty parent set", ["C10"], False, ""),
 "C10_B": ("/tmp/mut/C10/B", "C10", "ScoreCache with more distinct keys than max_size and a later hit on a key stored in a recycled link", ["C10"], False, ""),
 "C11_A": ("/tmp/mut/C11/A", "C11", "TreeSearch with a falsy root label (integer column 0 or '')", ["C11"], True, "TreeSearch.estimate entry point added"),
 "C11_B": ("/tmp/mut/C11/B", "C11", "max_indegree set, a node at the bound that has a child, reversal is the best move", ["C11"], False, ""),
 "C12_A": ("/tmp/mut/C12/A", "C12", "variant='parallel', separator of size k while one endpoint has <= k neighbours", ["C12"], False, ""),
 "C12_B": ("/tmp/mut/C12/B", "C12", "shape P->X<-Y, X->Z, Y->Z with P before X in the node order", ["C12"], False, ""),
 "C13_A": ("/tmp/mut/C13/A", "C13", "two default-Z validity / front-door calls with different treatments in one process", ["C13"], False, ""),
 "C13_B": ("/tmp/mut/C13/B", "C13", "M-bias graph, default adjustment set", ["C13"], False, ""),
 "C14_A": ("/tmp/mut/C14/A", "C14", "factor graph with two different factors over the same scope", ["C14"], False, ""),
 "C15_A": ("/tmp/mut/C15/A", "C15", "DBN copy() followed by add_node(latent=True) on either model", ["C15"], True, "DBN latent isolation added"),
 "C15_B": ("/tmp/mut/C15/B", "C15", "history remove_cpds(A); remove_node(A) with a child of A that still has a CPD", ["C15"], True, "targeted two-step histories; precondition relaxed"),
 "C16_A": ("/tmp/mut/C16/A", "C16", "out-of-place factor sum whose right operand lists the shared variables in another order", ["C04"], False, "C16's own factor-operation scenario uses equal orders"),
 "C16_B": ("/tmp/mut/C16/B", "C16", "PC-stable on an unfaithful CI pattern with a particular column order", ["C16"], True, "order independence under an arbitrary symbolic CI oracle added"),
 "C17_A": ("/tmp/mut/C17/A", "C17", "forward_inference query in slice t >= 1 with evidence on an interface node in slice t-1", ["C17"], False, ""),
 "C17_B": ("/tmp/mut/C17/B", "C17", "automatically completed CPD with >= 2 intra-slice parents declared in non-alphabetical order", ["C17"], False, ""),
 "C18_A": ("/tmp/mut/C18/A", "C18", "context-specific check_independence where P(x|c) != P(x)", ["C18"], False, ""),
 "C18_B": ("/tmp/mut/C18/B", "C18", "shielded collider with a particular predecessor order", ["C18"], False, ""),
 "C20_A": ("/tmp/mut/C20/A", "C20", "precision matrix cached before marginalize, then read again", ["C20"], False, ""),
 "C20_B": ("/tmp/mut/C20/B", "C20", "predict with >= 2 missing variables whose set order differs from the topological order", ["C20"], False, ""),
 "C19_wA": ("/tmp/mut2/C19/A", "C19", "integer labels with a gap inside a stratum ({0,2} or {1,5,10})", ["C19"], True, "caught by the concrete twin (the change bypasses np.unique, the counting model loses track); concrete fallback + gap labels added"),
 "C19_wB": ("/tmp/mut2/C19/B", "C19", ">= 2 conditioning columns with different sample means (or a shifted conditioning column)", ["C19"], False, ""),
 "C16_wA": ("/tmp/mut2/C16/A", "C16", "two soft-evidence questions with the same query/evidence variable sets and different likelihoods on one VariableElimination object", ["C16"], False, ""),
 "C16_wB": ("/tmp/mut2/C16/B", "C16", "two virtual evidences on one variable, the second listing >= 3 states in a rotated order", ["C01"], False, "mutation of repair 7e6515e"),
 "C15_wA": ("/tmp/mut2/C15/A", "C15", "one add_cpds call with two CPDs for a node that had none, then remove_node / copy / a BP query", ["C15"], True, "added"),
 "C15_wB": ("/tmp/mut2/C15/B", "C15", "DBN path Y~>X, then an intra-slice edge X->Y named in slice >= 2", ["C15"], True, "added"),
 "C07_wA": ("/tmp/mut2/C07/A", "C07", "integer state names that are a non-identity permutation of 0..k-1", ["C07"], False, ""),
 "C07_wB": ("/tmp/mut2/C07/B", "C07", "Markov network with variables whose only factor is one shared factor, or a second GibbsSampling built from the same model", ["C07"], True, "single-factor networks and second sampler added"),
 "C14_wA": ("/tmp/mut2/C14/A", "C14", "named states + a fill-in clique with a variable none of its assigned factors covers", ["C14"], False, "reverts repair f2edc2e"),
 "C01_xA": ("/tmp/mut3/C01/A", "C01", ">= 2 query variables with an ancestor listed after its descendant and evidence on every path between them", ["C01"], False, ""),
 "C01_xB": ("/tmp/mut3/C01/B", "C01", "joint=False, non-greedy order, >= 3 query variables whose remaining factors form a chain", ["C01"], True, "three-variable queries added"),
 "C03_xA": ("/tmp/mut3/C03/A", "C03", "two virtual evidences on one variable, the second listing >= 3 states in a rotated order", ["C01", "C03"], False, "same slip as C16_r2wB"),
 "C03_xB": ("/tmp/mut3/C03/B", "C03", "chordless cycle of length >= 5, belief-propagation MAP", ["C02"], False, "same family as C03_r2A"),
 "C06_xA": ("/tmp/mut3/C06/A", "C06", "one BayesianEstimator, two BDeu estimates of equally shaped CPDs with different equivalent sample sizes", ["C06"], True, "per-node ESS added"),
 "C06_xB": ("/tmp/mut3/C06/B", "C06", "fit_update for a node with >= 3 parents declared in an order that needs a 3-cycle to sort", ["C06"], True, "three-parent model added"),
 "C10_xA": ("/tmp/mut3/C10/A", "C10", "BIC with a parent state declared through state_names but never observed", ["C10"], False, ""),
 "C10_xB": ("/tmp/mut3/C10/B", "C10", "BDsScore wrapped in ScoreCache, whole-network score()", ["C10"], False, ""),
 "C12_xA": ("/tmp/mut3/C12/A", "C12", "5-node ground truth where a pass orients through Meek rule 3 only", ["C12"], False, ""),
 "C12_xB": ("/tmp/mut3/C12/B", "C12", "max_cond_vars equal to the size of a minimal separating set", ["C12"], False, ""),
 "C13_xA": ("/tmp/mut3/C13/A", "C13", "latent variable on a directed path from X to Y, front-door functions", ["C13"], False, ""),
 "C13_xB": ("/tmp/mut3/C13/B", "C13", "query with an explicit adjustment set, then a second query re-using the same do dict", ["C13"], False, ""),
 "C18_xA": ("/tmp/mut3/C18/A", "C18", "entails / is_equivalent, then add_assertions with IndependenceAssertion objects, then query again", ["C18"], True, "object form of add_assertions added"),
 "C18_xB": ("/tmp/mut3/C18/B", "C18", "joint distribution whose variable names contain one another (x1, x10)", ["C18"], True, "substring names added"),
 "C20_xA": ("/tmp/mut3/C20/A", "C20", "node with >= 2 parents whose LinearGaussianCPD lists evidence in another order than the edges were added", ["C20"], False, ""),
 "C20_xB": ("/tmp/mut3/C20/B", "C20", "canonical product / Gaussian product whose second operand lists its variables in another relative order", ["C20"], False, ""),
}
res = {}
for f in ("/tmp/mut/results.jsonl", "/tmp/mut/results2.jsonl", "/tmp/mut/results3.jsonl"):
    if os.path.exists(f):
        for l in open(f):
            r = json.loads(l)
            res.setdefault(r["dir"], []).append(r)
head = subprocess.run(["git", "-C", "/repo", "log", "--format=%h", "-1"], capture_output=True, text=True).stdout.strip()
kept = []
for name, (src, prop, needs, caught, missed, note) in T.items():
    tname = name.replace("_w", "w_") if "_w" in name else (name.replace("_x", "x_") if "_x" in name else name)
    tlog = f"/tmp/mut/tests_{tname}.log"
    tests = open(tlog).readline().strip() if os.path.exists(tlog) else "not run"
    if "not passing: 0" not in tests and "--force" not in sys.argv:
        print("SKIP (tests)", name, tests)
        continue
    runs = res.get(src, [])
    last = runs[-1] if runs else {}
    if last.get("demo_clean") != 0 or last.get("demo_mut") != 1:
        print("SKIP (demo)", name, last.get("demo_clean"), last.get("demo_mut"))
        continue
    dst = f"/verif/seeded/{name.replace('_', '_r2')}"
    if os.path.isdir(dst) and "--all" not in sys.argv:
        continue   # kept in an earlier invocation
    os.makedirs(dst, exist_ok=True)
    for fn in ("demo.py", "notes.md"):
        if os.path.exists(os.path.join(src, fn)):
            shutil.copy(os.path.join(src, fn), os.path.join(dst, fn))
    # patch regenerated against the current /repo HEAD (three-way apply in a scratch worktree), so that `git -C /repo apply` works as is
    w = "/tmp/keep_wt"
    subprocess.run(["git", "-C", "/repo", "worktree", "remove", "--force", w], capture_output=True)
    subprocess.run(["git", "-C", "/repo", "worktree", "add", "-q", "--detach", w, "HEAD"], check=True)
    ap = subprocess.run(["git", "apply", "--3way", os.path.join(src, "patch.diff")], cwd=w, capture_output=True, text=True)
    diff = subprocess.run(["git", "diff", "HEAD"], cwd=w, capture_output=True, text=True).stdout
    subprocess.run(["git", "-C", "/repo", "worktree", "remove", "--force", w], capture_output=True)
    if ap.returncode != 0 or "<<<<<<<" in diff or not diff.strip():
        print("SKIP (patch does not merge onto HEAD)", name)
        shutil.rmtree(dst)
        continue
    open(os.path.join(dst, "patch.diff"), "w").write(diff)
    chk = subprocess.run(["git", "-C", "/repo", "apply", "--check", os.path.join(dst, "patch.diff")], capture_output=True, text=True)
    if chk.returncode != 0:
        print("SKIP (regenerated patch does not apply)", name, chk.stderr[:200])
        shutil.rmtree(dst)
        continue
    meta = dict(property=prop, name=os.path.basename(dst), breaks=prop, needs_to_manifest=needs, caught_by=caught, missed_on_arrival=missed,
                confirmed=dict(patch_applies_to_repo_head=head, demo_clean_exit=0, demo_mutant_exit=1, existing_test_suite=tests,
                               check_runs=[dict(checks=r.get("checks")) for r in runs],
                               how="tools/eval_round.py (scratch worktree of /repo HEAD: demo with and without the patch, related quick checks with VERIF_REPO "
                                   "pointing at the patched worktree) + tools/mutant_tests.py (pinned test-suite under pytest-xdist, stable-pass comparison "
                                   "against BASELINE.json, tests failing under xdist re-run alone)"),
                note=note)
    json.dump(meta, open(os.path.join(dst, "meta.json"), "w"), indent=1)
    kept.append(os.path.basename(dst))
print("kept", len(kept), kept)

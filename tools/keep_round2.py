"""Copies the confirmed round-2 seeded changes into /verif/seeded/<ID>_<tag>/ (patch.diff, demo.py, notes.md, meta.json).
Reads /tmp/mut/results*.jsonl (tools/eval_round.py), /tmp/mut/tests_<name>.log (tools/mutant_tests.py) and the table below."""
import json, os, shutil, subprocess, sys

T = {  # name: (source dir, property, needs, caught_by, missed_at_first, note)
 "C01_A": ("/tmp/mut/C01/A", "C01", "two virtual-evidence queries with different likelihoods for one variable on ONE inference object", ["C16"], False, "C01 itself asks one question per scenario"),
 "C02_A": ("/tmp/mut/C02/A", "C02", "Markov network holding two value-equal factors on one scope", ["C14", "C02"], True, "C02 missed it on arrival (C14 caught it); mdup networks added to C02"),
 "C02_B": ("/tmp/mut/C02/B", "C02", "potentials of magnitude ~1e-9 (all message entries below the absolute tolerance of DiscreteFactor.__eq__)", ["C02", "C14"], False, ""),
 "C03_A": ("/tmp/mut/C03/A", "C03", "moral graph with a chordless cycle of length >= 5 (>= 6-node BN) and an elimination order walking along it", ["C02", "C14"], False, "the change is in triangulate(); C03 has no 5-cycle scenario"),
 "C03_B": ("/tmp/mut/C03/B", "C03", "two value-equal factors whose scope lies inside the query variables (replicated sensor CPDs observed in the same state)", ["C03", "C01"], False, ""),
 "C04_A": ("/tmp/mut/C04/A", "C04", "factor over >= 9 variables, maximisation leaving <= 4 of them incl. one at axis position >= 8", ["C04"], True, "wide factors added"),
 "C04_B_DROPPED": ("/tmp/mut/C04/B_dropped_breaks_3_ApproxInference_tests", "C04", "variable with >= 3 states whose two state orders differ by a non-involutive permutation (3-cycle)", ["C04"], True, "rotated state orders added"),
 "C05_A": ("/tmp/mut/C05/A", "C05", "CPD with >= 3 parents reduced on a middle parent, table that needs normalising", ["C05"], False, ""),
 "C05_B": ("/tmp/mut/C05/B", "C05", "child CPD lists a parent's states in another order than the parent's own CPD", ["C05"], False, ""),
 "C06_A": ("/tmp/mut/C06/A", "C06", "MLE for a node with parents whose state_names are declared in non-sorted order", ["C06"], False, ""),
 "C06_B": ("/tmp/mut/C06/B", "C06", "latent-class model wide enough that P(row, latent) < 1e-10 (>= 12 four-state indicators)", ["C06"], True, "wide EM concrete twin added"),
 "C07_A": ("/tmp/mut/C07/A", "C07", "likelihood weighting with evidence on a node and ALL of its >= 2 parents (non-palindromic parent states)", ["C07"], True, "whole-family evidence added"),
 "C07_B": ("/tmp/mut/C07/B", "C07", "GibbsSampling.sample(seed=0)", ["C07"], False, ""),
 "C08_A": ("/tmp/mut/C08/A", "C08", "local_independencies for a list of >= 2 variables", ["C08"], True, "multi-variable lists added"),
 "C08_B": ("/tmp/mut/C08/B", "C08", "two stacked latent variables above an endpoint", ["C08"], False, ""),
 "C09_A": ("/tmp/mut/C09/A", "C09", "UAI model with a cardinality >= 10 next to a one-digit cardinality", ["C09"], True, "two-digit cardinalities added"),
 "C09_B": ("/tmp/mut/C09/B", "C09", "BIF model with a variable or state named exactly 'default' or 'table'", ["C09"], True, "keyword names added"),
 "C10_A": ("/tmp/mut/C10/A", "C10", "BIC with a declared-but-unobserved child state and a non-empty parent set", ["C10"], False, ""),
 "C10_B": ("/tmp/mut/C10/B", "C10", "ScoreCache with more distinct keys than max_size and a later hit on a key stored in a recycled link", ["C10"], False, ""),
 "C11_A": ("/tmp/mut/C11/A", "C11", "TreeSearch with a falsy root label (integer column 0 or '')", ["C11"], True, "TreeSearch.estimate entry point added"),
 "C11_B": ("/tmp/mut/C11/B", "C11", "max_indegree set, a node at the bound that has a child, reversal is the best move", ["C11"], False, ""),
 "C12_A": ("/tmp/mut/C12/A", "C12", "variant='parallel', separator of size k while one endpoint has <= k neighbours", ["C12"], False, ""),
 "C12_B": ("/tmp/mut/C12/B", "C12", "shape P->X<-Y, X->Z, Y->Z with P before X in the node order", ["C12"], False, ""),
 "C13_A": ("/tmp/mut/C13/A", "C13", "two default-Z validity / front-door calls with different treatments in one process", ["C13"], False, ""),
 "C13_B": ("/tmp/mut/C13/B", "C13", "M-bias graph, default adjustment set", ["C13"], False, ""),
 "C14_A": ("/tmp/mut/C14/A", "C14", "factor graph with two different factors over the same scope", ["C14"], False, ""),
 "C15_A": ("/tmp/mut/C15/A", "C15", "DBN copy() followed by add_node(latent=True) on either model", ["C15"], True, "DBN latent isolation added"),
 "C15_B": ("/tmp/mut/C15/B", "C15", "history remove_cpds(A); remove_node(A) with a child of A that still has a CPD", ["C15"], True, "targeted two-step histories; precondition relaxed"),
 "C16_A": ("/tmp/mut/C16/A", "C16", "out-of-place factor sum whose right operand lists the shared variables in another order", ["C04"], False, "C16's own factor-operation scenario uses equal orders"),
 "C16_B": ("/tmp/mut/C16/B", "C16", "PC-stable on an unfaithful CI pattern with a particular column order", ["C16"], True, "order independence under an arbitrary symbolic CI oracle added"),
 "C17_A": ("/tmp/mut/C17/A", "C17", "forward_inference query in slice t >= 1 with evidence on an interface node in slice t-1", ["C17"], False, ""),
 "C17_B": ("/tmp/mut/C17/B", "C17", "automatically completed CPD with >= 2 intra-slice parents declared in non-alphabetical order", ["C17"], False, ""),
 "C18_A": ("/tmp/mut/C18/A", "C18", "context-specific check_independence where P(x|c) != P(x)", ["C18"], False, ""),
 "C18_B": ("/tmp/mut/C18/B", "C18", "shielded collider with a particular predecessor order", ["C18"], False, ""),
 "C20_A": ("/tmp/mut/C20/A", "C20", "precision matrix cached before marginalize, then read again", ["C20"], False, ""),
 "C20_B": ("/tmp/mut/C20/B", "C20", "predict with >= 2 missing variables whose set order differs from the topological order", ["C20"], False, ""),
 "C19_wA": ("/tmp/mut2/C19/A", "C19", "integer labels with a gap inside a stratum ({0,2} or {1,5,10})", ["C19"], True, "caught by the concrete twin (the change bypasses np.unique, the counting model loses track); concrete fallback + gap labels added"),
 "C19_wB": ("/tmp/mut2/C19/B", "C19", ">= 2 conditioning columns with different sample means (or a shifted conditioning column)", ["C19"], False, ""),
 "C16_wA": ("/tmp/mut2/C16/A", "C16", "two soft-evidence questions with the same query/evidence variable sets and different likelihoods on one VariableElimination object", ["C16"], False, ""),
 "C16_wB": ("/tmp/mut2/C16/B", "C16", "two virtual evidences on one variable, the second listing >= 3 states in a rotated order", ["C01"], False, "mutation of repair 7e6515e"),
 "C15_wA": ("/tmp/mut2/C15/A", "C15", "one add_cpds call with two CPDs for a node that had none, then remove_node / copy / a BP query", ["C15"], True, "added"),
 "C15_wB": ("/tmp/mut2/C15/B", "C15", "DBN path Y~>X, then an intra-slice edge X->Y named in slice >= 2", ["C15"], True, "added"),
 "C07_wA": ("/tmp/mut2/C07/A", "C07", "integer state names that are a non-identity permutation of 0..k-1", ["C07"], False, ""),
 "C07_wB": ("/tmp/mut2/C07/B", "C07", "Markov network with variables whose only factor is one shared factor, or a second GibbsSampling built from the same model", ["C07"], True, "single-factor networks and second sampler added"),
 "C14_wA": ("/tmp/mut2/C14/A", "C14", "named states + a fill-in clique with a variable none of its assigned factors covers", ["C14"], False, "reverts repair f2edc2e"),
}
res = {}
for f in ("/tmp/mut/results.jsonl", "/tmp/mut/results2.jsonl"):
    if os.path.exists(f):
        for l in open(f):
            r = json.loads(l)
            res.setdefault(r["dir"], []).append(r)
head = subprocess.run(["git", "-C", "/repo", "log", "--format=%h", "-1"], capture_output=True, text=True).stdout.strip()
kept = []
for name, (src, prop, needs, caught, missed, note) in T.items():
    tname = name.replace("_w", "w_") if "_w" in name else name
    tlog = f"/tmp/mut/tests_{tname}.log"
    tests = open(tlog).readline().strip() if os.path.exists(tlog) else "not run"
    if "not passing: 0" not in tests and "--force" not in sys.argv:
        print("SKIP (tests)", name, tests)
        continue
    runs = res.get(src, [])
    last = runs[-1] if runs else {}
    if last.get("demo_clean") != 0 or last.get("demo_mut") != 1:
        print("SKIP (demo)", name, last.get("demo_clean"), last.get("demo_mut"))
        continue
    dst = f"/verif/seeded/{name.replace('_', '_r2')}" if "_w" not in name else f"/verif/seeded/{name.replace('_w', '_r2w')}"
    os.makedirs(dst, exist_ok=True)
    for fn in ("demo.py", "notes.md"):
        if os.path.exists(os.path.join(src, fn)):
            shutil.copy(os.path.join(src, fn), os.path.join(dst, fn))
    # patch regenerated against the current /repo HEAD (three-way apply in a scratch worktree), so that `git -C /repo apply` works as is
    w = "/tmp/keep_wt"
    subprocess.run(["git", "-C", "/repo", "worktree", "remove", "--force", w], capture_output=True)
    subprocess.run(["git", "-C", "/repo", "worktree", "add", "-q", "--detach", w, "HEAD"], check=True)
    ap = subprocess.run(["git", "apply", "--3way", os.path.join(src, "patch.diff")], cwd=w, capture_output=True, text=True)
    diff = subprocess.run(["git", "diff", "HEAD"], cwd=w, capture_output=True, text=True).stdout
    subprocess.run(["git", "-C", "/repo", "worktree", "remove", "--force", w], capture_output=True)
    if ap.returncode != 0 or "<<<<<<<" in diff or not diff.strip():
        print("SKIP (patch does not merge onto HEAD)", name)
        shutil.rmtree(dst)
        continue
    open(os.path.join(dst, "patch.diff"), "w").write(diff)
    chk = subprocess.run(["git", "-C", "/repo", "apply", "--check", os.path.join(dst, "patch.diff")], capture_output=True, text=True)
    if chk.returncode != 0:
        print("SKIP (regenerated patch does not apply)", name, chk.stderr[:200])
        shutil.rmtree(dst)
        continue
    meta = dict(property=prop, name=os.path.basename(dst), breaks=prop, needs_to_manifest=needs, caught_by=caught, missed_on_arrival=missed,
                confirmed=dict(patch_applies_to_repo_head=head, demo_clean_exit=0, demo_mutant_exit=1, existing_test_suite=tests,
                               check_runs=[dict(checks=r.get("checks")) for r in runs],
                               how="tools/eval_round.py (scratch worktree of /repo HEAD: demo with and without the patch, related quick checks with VERIF_REPO "
                                   "pointing at the patched worktree) + tools/mutant_tests.py (pinned test-suite under pytest-xdist, stable-pass comparison "
                                   "against BASELINE.json, tests failing under xdist re-run alone)"),
                note=note)
    json.dump(meta, open(os.path.join(dst, "meta.json"), "w"), indent=1)
    kept.append(os.path.basename(dst))
print("kept", len(kept), kept)

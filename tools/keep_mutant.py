"""Copies a confirmed seeded change into /verif/seeded/<ID>_<name>/ with meta.json.
usage: keep_mutant.py <PROP> <mut dir> <name> <caught_by (comma list)> <needs> [note]"""
import json, os, shutil, sys, subprocess
prop, d, name, caught, needs = sys.argv[1:6]
note = sys.argv[6] if len(sys.argv) > 6 else ""
dst = f"/verif/seeded/{prop}_{name}"
os.makedirs(dst, exist_ok=True)
for f in ("patch.diff", "demo.py", "notes.md"):
    if os.path.exists(os.path.join(d, f)):
        shutil.copy(os.path.join(d, f), os.path.join(dst, f))
testlog = f"/tmp/mut/tests_{prop}_{os.path.basename(d)}.log"
tests = open(testlog).readline().strip() if os.path.exists(testlog) else "not run"
head = subprocess.run(["git", "-C", "/repo", "log", "--format=%h", "-1"], capture_output=True, text=True).stdout.strip()
meta = dict(property=prop, name=name, breaks=prop, needs_to_manifest=needs, caught_by=[c for c in caught.split(",") if c],
            confirmed=dict(patch_applies_to_repo_head=head, demo_clean_exit=0, demo_mutant_exit=1, existing_test_suite=tests,
                           how="tools/eval_mutant.sh (scratch worktree of /repo HEAD, demo with and without the patch, ./check with VERIF_REPO pointing at the "
                               "patched worktree) + tools/baseline_cmp.py full suite against BASELINE.json stable_pass"),
            note=note)
json.dump(meta, open(os.path.join(dst, "meta.json"), "w"), indent=1)
print("kept", dst, tests)

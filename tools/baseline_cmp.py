"""Run (part of) the repo test-suite and report stable-pass tests that did not pass.
usage: baseline_cmp.py <repo_dir> [pytest paths...]"""
import json, subprocess, sys, tempfile, os, xml.etree.ElementTree as ET
repo = sys.argv[1]; paths = sys.argv[2:]
base = json.load(open("/root/.vp/BASELINE.json"))
stable = set(base["stable_pass"])
with tempfile.NamedTemporaryFile(suffix=".xml", delete=False) as f: out = f.name
cmd = ["/venv/bin/python", "-m", "pytest", "-q", "-p", "no:cacheprovider", "--timeout=900", "--continue-on-collection-errors", f"--junitxml={out}"] + paths
env = dict(os.environ); env.pop("PGMPY_VERIF", None); env["OMP_NUM_THREADS"] = "1"; env["MKL_NUM_THREADS"] = "1"; env["OPENBLAS_NUM_THREADS"] = "1"
subprocess.run(cmd, cwd=repo, stdout=subprocess.DEVNULL, stderr=subprocess.DEVNULL, env=env)
passed = set(); seen = set()
for tc in ET.parse(out).getroot().iter("testcase"):
    name = f"{tc.get('classname')}::{tc.get('name')}"
    seen.add(name)
    if not any(c.tag in ("failure", "error", "skipped") for c in tc): passed.add(name)
os.unlink(out)
bad = sorted((stable & seen) - passed)
if not paths: bad = sorted(stable - passed)
print(f"ran {len(seen)} tests, {len(passed)} passed; stable-pass tests not passing: {len(bad)}")
for b in bad: print("  ", b)
sys.exit(1 if bad else 0)

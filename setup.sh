#!/bin/bash
# Builds the overlay venv (z3-solver on top of /venv's packages) from the offline wheelhouse. Idempotent.
HERE="$(cd "$(dirname "$0")" && pwd)"
V="$HERE/.venv"
if [ -x "$V/bin/python" ] && "$V/bin/python" -c "import z3, sympy, numpy, pgmpy" 2>/dev/null; then exit 0; fi
(
  flock 9
  if [ -x "$V/bin/python" ] && "$V/bin/python" -c "import z3, sympy, numpy, pgmpy" 2>/dev/null; then exit 0; fi
  rm -rf "$V"
  /venv/bin/python -m venv "$V" || exit 1
  echo "import site; site.addsitedir('/venv/lib/python3.12/site-packages')" > "$V/lib/python3.12/site-packages/_base.pth"
  PIP_NO_INDEX=1 "$V/bin/pip" install -q --no-index --find-links /opt/veriftools/wheels z3-solver || exit 1
  "$V/bin/python" -c "import z3, sympy, numpy, pgmpy" || exit 1
) 9>"$HERE/.setup.lock"
